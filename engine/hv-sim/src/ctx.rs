//! Per-case context, reachable from actor callbacks through a thread-local (every case runs on
//! its own thread, on one single-threaded executor).
use std::{
    cell::{Cell, RefCell},
    rc::Rc,
    sync::Arc,
};

use crate::{
    history::*,
    model::*,
    probe::AnyAddr,
    sim::{Sim, TaskId, TaskTag},
};

#[derive(Clone, Debug)]
pub struct ActorRt {
    pub kind: u8,
    pub origin: Origin,
    pub slot: Option<Slot>,
    pub task: Option<TaskId>,
    pub incarnations: u32,
    pub handler_count: u32,
    pub mailbox: Mailbox,
    pub strategy: RStrat,
    pub stream: bool,
    pub timeout: Option<(u32, bool)>,
    pub owning: bool,
}

pub struct CaseCtx {
    pub sim: Rc<Sim>,
    pub case: Arc<Case>,
    pub hist: RefCell<History>,
    stamp: Cell<u64>,
    pub actors: RefCell<Vec<ActorRt>>,
    next_value: Cell<u32>,
    next_inv: Cell<u32>,
    next_timer: Cell<usize>,
    next_handle: Cell<u32>,
    next_who: Cell<u32>,
    /// addresses of children that are "also held outside": handed to the harness
    pub outside: RefCell<Vec<(ActorId, AnyAddr)>>,
    /// weak handles that handlers obtained from their context and handed to the harness
    pub exported: RefCell<Vec<(ActorId, crate::probe::Exported)>>,
    /// primary addresses of set-up actors (while the set-up task still holds them)
    pub primary: RefCell<Vec<Option<AnyAddr>>>,
    pub streams: RefCell<Vec<crate::probe::StreamCtl>>,
    /// virtual time of the last client-side event (progress detection for the run phase)
    pub last_client_time: Cell<u64>,
}

thread_local! {
    static CASE: RefCell<Option<Rc<CaseCtx>>> = const { RefCell::new(None) };
}

pub fn install_case(c: Option<Rc<CaseCtx>>) {
    CASE.with(|s| *s.borrow_mut() = c);
}

pub fn case_rc() -> Rc<CaseCtx> {
    CASE.with(|s| s.borrow().clone()).expect("no case installed on this thread")
}

pub fn with_case<R>(f: impl FnOnce(&CaseCtx) -> R) -> R {
    let c = case_rc();
    f(&c)
}

pub fn log(kind: EvKind) -> u64 {
    with_case(|c| c.log(kind))
}

impl CaseCtx {
    pub fn new(sim: Rc<Sim>, case: Arc<Case>) -> Rc<Self> {
        let c = Rc::new(CaseCtx {
            sim,
            case: Arc::clone(&case),
            hist: RefCell::new(Vec::with_capacity(256)),
            stamp: Cell::new(0),
            actors: RefCell::new(Vec::new()),
            next_value: Cell::new(0),
            next_inv: Cell::new(0),
            next_timer: Cell::new(0),
            next_handle: Cell::new(0),
            next_who: Cell::new(0),
            outside: RefCell::new(Vec::new()),
            exported: RefCell::new(Vec::new()),
            primary: RefCell::new(Vec::new()),
            streams: RefCell::new(Vec::new()),
            last_client_time: Cell::new(0),
        });
        // actor ids 0..n are the slots of the case
        for (slot, a) in case.actors.iter().enumerate() {
            let origin = if a.parent.is_some() {
                Origin::Child
            } else if a.spawn.from_default() {
                Origin::Default
            } else {
                Origin::Setup
            };
            c.actors.borrow_mut().push(ActorRt {
                kind: a.kind,
                origin,
                slot: Some(slot),
                task: None,
                incarnations: 0,
                handler_count: 0,
                mailbox: a.spawn.mailbox(),
                strategy: a.spawn.strategy(),
                stream: a.spawn.is_stream(),
                timeout: a.spawn.timeout(),
                owning: a.spawn.owning(),
            });
        }
        c
    }

    pub fn log(&self, kind: EvKind) -> u64 {
        let stamp = self.stamp.get();
        self.stamp.set(stamp + 1);
        self.hist.borrow_mut().push(Ev { stamp, time: self.sim.now(), task: self.sim.current(), kind });
        stamp
    }

    pub fn new_actor(&self, kind: u8, origin: Origin) -> ActorId {
        let id = {
            let mut a = self.actors.borrow_mut();
            a.push(ActorRt {
                kind,
                origin,
                slot: None,
                task: None,
                incarnations: 0,
                handler_count: 0,
                mailbox: Mailbox::Unbounded,
                strategy: RStrat::Default,
                stream: false,
                timeout: None,
                owning: false,
            });
            a.len() - 1
        };
        self.log(EvKind::ActorNew { actor: id, kind, origin });
        id
    }

    pub fn new_value(&self) -> u32 {
        let v = self.next_value.get();
        self.next_value.set(v + 1);
        v
    }
    pub fn new_inv(&self) -> u32 {
        let v = self.next_inv.get();
        self.next_inv.set(v + 1);
        v
    }
    pub fn new_timer(&self) -> usize {
        let v = self.next_timer.get();
        self.next_timer.set(v + 1);
        v
    }
    pub fn new_handle(&self) -> u32 {
        let v = self.next_handle.get();
        self.next_handle.set(v + 1);
        v
    }
    pub fn new_who(&self) -> u32 {
        let v = self.next_who.get();
        self.next_who.set(v + 1);
        v
    }

    /// actor id of the actor task currently being polled
    pub fn current_actor(&self) -> Option<ActorId> {
        match self.sim.current_tag() {
            Some(TaskTag::Actor(a)) => Some(a),
            _ => None,
        }
    }

    pub fn fault_handler_panic(&self, actor: ActorId, kth: u32) -> bool {
        self.case.faults.iter().any(|f| matches!(f, Fault::HandlerPanic { actor: a, kth: k } if *a == actor && *k == kth))
    }
    pub fn fault_start_fail(&self, actor: ActorId, inc: u32) -> Option<FailHow> {
        self.case.faults.iter().find_map(|f| match f {
            Fault::StartFail { actor: a, inc: i, how } if *a == actor && *i == inc => Some(*how),
            _ => None,
        })
    }
    pub fn fault_finish_panic(&self, actor: ActorId) -> bool {
        self.case.faults.iter().any(|f| matches!(f, Fault::FinishPanic { actor: a } if *a == actor))
    }
    pub fn fault_stop_panic(&self, actor: ActorId) -> bool {
        self.case.faults.iter().any(|f| matches!(f, Fault::StopPanic { actor: a } if *a == actor))
    }
}
