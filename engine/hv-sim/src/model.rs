//! Data model of a generated case (serialisable: it is also the replay format).
use serde::{Deserialize, Serialize};

pub type Slot = usize;
pub type ActorId = usize;

#[derive(Clone, Copy, Debug, PartialEq, Eq, Hash, PartialOrd, Ord, Serialize, Deserialize)]
pub enum Family {
    C01,
    C02,
    C03,
    C04,
    C05,
    C06,
    C07,
    C08,
    C09,
    C10,
    C11,
    C12,
    C13,
    C14,
    C15,
    C16,
    C17,
}

impl Family {
    pub const ALL: [Family; 17] = [
        Family::C01,
        Family::C02,
        Family::C03,
        Family::C04,
        Family::C05,
        Family::C06,
        Family::C07,
        Family::C08,
        Family::C09,
        Family::C10,
        Family::C11,
        Family::C12,
        Family::C13,
        Family::C14,
        Family::C15,
        Family::C16,
        Family::C17,
    ];
    pub fn id(self) -> &'static str {
        match self {
            Family::C01 => "C01",
            Family::C02 => "C02",
            Family::C03 => "C03",
            Family::C04 => "C04",
            Family::C05 => "C05",
            Family::C06 => "C06",
            Family::C07 => "C07",
            Family::C08 => "C08",
            Family::C09 => "C09",
            Family::C10 => "C10",
            Family::C11 => "C11",
            Family::C12 => "C12",
            Family::C13 => "C13",
            Family::C14 => "C14",
            Family::C15 => "C15",
            Family::C16 => "C16",
            Family::C17 => "C17",
        }
    }
    pub fn parse(s: &str) -> Option<Family> {
        Family::ALL.iter().copied().find(|f| f.id() == s)
    }
}

#[derive(Clone, Copy, Debug, PartialEq, Eq, Hash, Serialize, Deserialize)]
pub enum Mailbox {
    Unbounded,
    Bounded(u8),
}

#[derive(Clone, Copy, Debug, PartialEq, Eq, Hash, Serialize, Deserialize)]
pub enum RStrat {
    /// `RestartOnly`: the builder's default
    Default,
    Recreate,
    NonRestartable,
}

#[derive(Clone, Debug, PartialEq, Eq, Hash, Serialize, Deserialize)]
pub enum SpawnSpec {
    /// `Spawnable::spawn`
    Spawn,
    /// `Spawnable::spawn_owning`
    SpawnOwning,
    /// `DefaultSpawnable::spawn_default` (value comes from `Default`, behaviour = default_beh[kind])
    SpawnDefault,
    /// `DefaultSpawnable::spawn_owning`
    SpawnDefaultOwning,
    /// `hannibal::build(..)....spawn()/spawn_owning()`
    Build { mailbox: Mailbox, strategy: RStrat, timeout: Option<u32>, fail_on_timeout: bool, owning: bool },
    /// stream attached; `builder: None` = `spawn_on_stream` / `spawn_owning_on_stream`
    Stream {
        builder: Option<Mailbox>,
        owning: bool,
        /// a handler timeout configured on the builder before the stream is attached (only with a builder;
        /// stream-attached actors never abandon an invocation, so it must have no effect)
        #[serde(default)]
        timeout: Option<(u32, bool)>,
    },
    /// spawn (optionally through the builder) and `register()` as the service of its kind
    Register {
        builder: Option<Mailbox>,
        /// a handler timeout configured on the builder (only with a builder)
        #[serde(default)]
        timeout: Option<(u32, bool)>,
    },
}

impl SpawnSpec {
    pub fn owning(&self) -> bool {
        matches!(
            self,
            SpawnSpec::SpawnOwning
                | SpawnSpec::SpawnDefaultOwning
                | SpawnSpec::Build { owning: true, .. }
                | SpawnSpec::Stream { owning: true, .. }
        )
    }
    pub fn mailbox(&self) -> Mailbox {
        match self {
            SpawnSpec::Build { mailbox, .. } => *mailbox,
            SpawnSpec::Stream { builder: Some(m), .. } => *m,
            SpawnSpec::Register { builder: Some(m), .. } => *m,
            _ => Mailbox::Unbounded,
        }
    }
    /// the explicit builder mailbox, if any
    pub fn mailbox_opt(&self) -> Option<Mailbox> {
        match self {
            SpawnSpec::Build { mailbox, .. } => Some(*mailbox),
            SpawnSpec::Stream { builder, .. } => *builder,
            SpawnSpec::Register { builder, .. } => *builder,
            _ => None,
        }
    }
    pub fn strategy(&self) -> RStrat {
        match self {
            SpawnSpec::Build { strategy, .. } => *strategy,
            SpawnSpec::Stream { .. } => RStrat::NonRestartable,
            _ => RStrat::Default,
        }
    }
    pub fn is_stream(&self) -> bool {
        matches!(self, SpawnSpec::Stream { .. })
    }
    pub fn timeout(&self) -> Option<(u32, bool)> {
        match self {
            SpawnSpec::Build { timeout: Some(t), fail_on_timeout, .. } => Some((*t, *fail_on_timeout)),
            SpawnSpec::Register { builder: Some(_), timeout: Some((t, f)) } => Some((*t, *f)),
            _ => None,
        }
    }
    pub fn from_default(&self) -> bool {
        matches!(self, SpawnSpec::SpawnDefault | SpawnSpec::SpawnDefaultOwning)
    }
}

#[derive(Clone, Copy, Debug, PartialEq, Eq, Hash, Serialize, Deserialize)]
pub enum ChildReg {
    /// `add_child` (Sender<()>)
    Unit,
    /// `register_child::<ChildMsg<0>>`
    Msg0,
    /// `register_child::<ChildMsg<1>>`
    Msg1,
}

#[derive(Clone, Copy, Debug, PartialEq, Eq, Hash, Serialize, Deserialize)]
pub struct ChildOf {
    pub parent: Slot,
    pub under: ChildReg,
    /// an `Addr` of the child is also handed to the harness (granted to client 0)
    pub outside: bool,
    /// the same child is registered a second time under this type
    #[serde(default)]
    pub also_under: Option<ChildReg>,
}

#[derive(Clone, Copy, Debug, PartialEq, Eq, Hash, Serialize, Deserialize)]
pub enum TimerKind {
    Interval,
    IntervalWith,
    DelayedSend,
    DelayedExec,
}

#[derive(Clone, Debug, PartialEq, Eq, Hash, Serialize, Deserialize)]
pub struct TimerSpec {
    pub kind: TimerKind,
    pub ticks: u32,
    /// what the tick handler does
    pub work: Vec<Step>,
}

#[derive(Clone, Debug, PartialEq, Eq, Hash, Serialize, Deserialize)]
pub enum Step {
    Yield,
    Sleep(u32),
    CtxStop,
    CtxRestart,
    AddTimer(TimerSpec),
    SendToChildren { reg: ChildReg, tag: u32 },
    Publish { topic: u8, id: u32 },
    Subscribe(u8),
    /// `peer.call(Ask)`; the result is recorded in the history
    CallPeer,
    /// `Probe::<kind>::from_registry()` + identify
    Lookup(u8),
    /// hand a weak handle obtained from the actor's own context (weak_address / weak_sender /
    /// weak_caller) to client 0
    ExportWeak(HKind),
    Panic,
}

#[derive(Clone, Copy, Debug, PartialEq, Eq, Hash, Serialize, Deserialize)]
pub enum FailHow {
    Err,
    Panic,
}

#[derive(Clone, Debug, Default, PartialEq, Eq, Hash, Serialize, Deserialize)]
pub struct Behavior {
    /// executed in every `started` (timers, subscriptions, ...)
    pub started: Vec<Step>,
    pub stopped: Vec<Step>,
    pub finished: Vec<Step>,
    /// `started` of incarnation n (0-based, counted per actor) fails
    pub start_fail: Option<(u32, FailHow)>,
    pub stop_panic: bool,
    /// what the handlers of stream items, topic messages, child broadcasts and unit messages do
    #[serde(default)]
    pub aux_work: Vec<Step>,
}

#[derive(Clone, Debug, PartialEq, Eq, Hash, Serialize, Deserialize)]
pub struct ActorSpec {
    pub kind: u8,
    pub spawn: SpawnSpec,
    pub parent: Option<ChildOf>,
    pub beh: Behavior,
    /// holds a strong `Addr` of this earlier top-level actor (for `Step::CallPeer`)
    pub peer: Option<Slot>,
}

#[derive(Clone, Copy, Debug, PartialEq, Eq, Hash, PartialOrd, Ord, Serialize, Deserialize)]
pub enum HKind {
    Addr,
    Owning,
    Sender,
    Caller,
    WeakAddr,
    WeakSender,
    WeakCaller,
}

impl HKind {
    pub fn strong(self) -> bool {
        matches!(self, HKind::Addr | HKind::Owning | HKind::Sender | HKind::Caller)
    }
}

#[derive(Clone, Copy, Debug, PartialEq, Eq, Hash, Serialize, Deserialize)]
pub struct Grant {
    pub client: usize,
    pub actor: Slot,
    pub kind: HKind,
}

#[derive(Clone, Copy, Debug, PartialEq, Eq, Hash, Serialize, Deserialize)]
pub enum RegOp {
    FromRegistry,
    Setup,
    /// spawn a fresh (non-default) instance and `register()` it
    Register,
    /// spawn a fresh instance and `replace()`
    Replace,
    Unregister,
    TryFromRegistry,
    AlreadyRunning,
}

#[derive(Clone, Copy, Debug, PartialEq, Eq, Hash, Serialize, Deserialize)]
pub enum PubHow {
    /// `Broker::publish(msg)`
    Static,
    /// `Broker::from_registry().await.publish(msg)` on a held broker address
    ViaAddr,
}

#[derive(Clone, Debug, PartialEq, Eq, Hash, Serialize, Deserialize)]
pub enum ClientOp {
    Send { h: u16, work: Vec<Step> },
    Call { h: u16, work: Vec<Step> },
    /// start a call, poll it `polls` times, then drop the future (client-side timeout / select!)
    CallDrop { h: u16, work: Vec<Step>, polls: u8 },
    /// start a send, poll it `polls` times, then drop the future
    SendDrop { h: u16, work: Vec<Step>, polls: u8 },
    /// a send whose future is polled `extra` more times than it is woken (spurious polls are allowed by the Future contract)
    SendRepoll { h: u16, work: Vec<Step>, extra: u8 },
    /// `drop(owning.join())`: a join future that is never polled
    JoinDiscard { h: u16 },
    /// `let j = owning.join(); let plain = owning.detach();` - the join future is kept, unpolled, for a later `AwaitLazy`
    JoinLazyDetach { h: u16 },
    /// await the oldest join future this client kept with `JoinLazyDetach`
    AwaitLazy,
    /// create a join future, poll it once, drop it (a `select!` arm that lost): the actor is unaffected
    JoinPollDrop { h: u16 },
    /// `held_addr.clone().register()`: register an instance the client already holds (possibly the registered one)
    RegisterHeld { h: u16 },
    /// create a join future, poll it once and keep it alive (a stalled `select!` arm) until the client ends
    JoinStash { h: u16 },
    Ping { h: u16 },
    Stop { h: u16 },
    Halt { h: u16 },
    TryStop { h: u16 },
    TryHalt { h: u16 },
    Restart { h: u16 },
    AwaitClone { h: u16 },
    Join { h: u16 },
    Consume { h: u16 },
    ConsumeSync { h: u16 },
    Detach { h: u16 },
    Clone { h: u16 },
    Downgrade { h: u16 },
    Upgrade { h: u16 },
    ToSender { h: u16 },
    ToCaller { h: u16 },
    ToWeakSender { h: u16 },
    ToWeakCaller { h: u16 },
    ToAddr { h: u16 },
    Drop { h: u16 },
    Give { h: u16, to: u8 },
    QueryStopped { h: u16 },
    QueryRunning { h: u16 },
    Reg { op: RegOp, kind: u8 },
    Publish { how: PubHow, topic: u8, id: u32 },
    SubscribeFor { h: u16, topic: u8 },
    UnsubscribeFor { h: u16, topic: u8 },
    BrokerPing { topic: u8 },
    /// stop the topic's broker (an on-demand service) and wait until it has terminated: by awaiting its
    /// address (`wait`), or without anybody awaiting it (watching `stopped()`)
    BrokerHalt { topic: u8, wait: bool },
    Feed { stream: u8, n: u8 },
    EndStream { stream: u8 },
    Sleep(u32),
    Yield,
}

#[derive(Clone, Copy, Debug, PartialEq, Eq, Hash, Serialize, Deserialize)]
pub enum Fault {
    /// drop the actor task of `actor` before its j-th poll
    CancelActor { actor: Slot, before_poll: u32 },
    /// the k-th handler invocation (0-based, client messages and ticks alike) of `actor` panics at entry
    HandlerPanic { actor: Slot, kth: u32 },
    /// `started` of incarnation `inc` fails
    StartFail { actor: Slot, inc: u32, how: FailHow },
    /// `stopped` panics
    StopPanic { actor: Slot },
    /// `finished` (stream-attached actors) panics after its steps
    FinishPanic { actor: Slot },
}

#[derive(Clone, Debug, PartialEq, Eq, Hash, Serialize, Deserialize)]
pub struct Case {
    pub family: Family,
    pub actors: Vec<ActorSpec>,
    /// behaviour of values created through `Default` (on-demand services, recreate, spawn_default), per kind
    pub default_beh: Vec<Behavior>,
    pub grants: Vec<Grant>,
    pub clients: Vec<Vec<ClientOp>>,
    pub faults: Vec<Fault>,
    pub schedule: Vec<u8>,
    /// extra virtual time granted after the last client finished
    pub settle: u32,
}

/// what a handler invocation was for
#[derive(Clone, Debug, PartialEq, Eq, Hash, PartialOrd, Ord, Serialize, Deserialize)]
pub enum MsgRef {
    /// client message id = client * 1000 + op index
    Client(u32),
    Tick { timer: usize, n: u32 },
    Unit,
    Topic { topic: u8, id: u32 },
    Child { reg: u8, tag: u32 },
    Item(u32),
    /// identification call issued by the harness itself
    WhoAmI(u32),
}

#[derive(Clone, Debug, PartialEq, Eq, Serialize, Deserialize)]
pub struct Reply {
    pub msg: MsgRef,
    pub actor: ActorId,
    pub value: u32,
    pub inc: u32,
    pub inv: u32,
    pub began: Vec<MsgRef>,
    pub done: Vec<MsgRef>,
}

pub fn msg_id(client: usize, op: usize) -> u32 {
    (client * 1000 + op) as u32
}
