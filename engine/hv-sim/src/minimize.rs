//! Structural minimiser run after proptest's own shrinking: greedy removal of clients, ops,
//! grants, timers, faults, schedule bytes, keeping only changes under which the same violation
//! signature is still reported.
use crate::model::*;

pub struct Budget {
    pub runs: u32,
}

/// `fails(case)` returns true iff the same violation is still reported
pub fn minimize(mut case: Case, budget: &mut Budget, fails: &mut dyn FnMut(&Case) -> bool) -> Case {
    let mut progress = true;
    while progress && budget.runs > 0 {
        progress = false;
        let mut attempt = |cand: Case, case: &mut Case, budget: &mut Budget| -> bool {
            if budget.runs == 0 || cand == *case {
                return false;
            }
            budget.runs -= 1;
            if fails(&cand) {
                *case = cand;
                true
            } else {
                false
            }
        };
        // schedule: empty, halves, zeros
        if !case.schedule.is_empty() {
            let mut c = case.clone();
            c.schedule.clear();
            if attempt(c, &mut case, budget) {
                progress = true;
            } else {
                let mut c = case.clone();
                c.schedule.truncate(case.schedule.len() / 2);
                if attempt(c, &mut case, budget) {
                    progress = true;
                }
                let mut c = case.clone();
                c.schedule.iter_mut().for_each(|b| *b = 0);
                if attempt(c, &mut case, budget) {
                    progress = true;
                }
            }
        }
        // faults
        for i in (0..case.faults.len()).rev() {
            let mut c = case.clone();
            c.faults.remove(i);
            if attempt(c, &mut case, budget) {
                progress = true;
            }
        }
        // whole clients (from the end), with their grants
        for ci in (0..case.clients.len()).rev() {
            if case.clients.len() <= 1 {
                break;
            }
            let mut c = case.clone();
            c.clients.remove(ci);
            c.grants.retain(|g| g.client != ci);
            for g in &mut c.grants {
                if g.client > ci {
                    g.client -= 1;
                }
            }
            if attempt(c, &mut case, budget) {
                progress = true;
            }
        }
        // single ops
        for ci in 0..case.clients.len() {
            let mut oi = case.clients[ci].len();
            while oi > 0 {
                oi -= 1;
                if oi >= case.clients[ci].len() {
                    continue;
                }
                let mut c = case.clone();
                c.clients[ci].remove(oi);
                if attempt(c, &mut case, budget) {
                    progress = true;
                }
            }
        }
        // grants
        for gi in (0..case.grants.len()).rev() {
            let mut c = case.clone();
            c.grants.remove(gi);
            if attempt(c, &mut case, budget) {
                progress = true;
            }
        }
        // trailing actors nobody refers to
        while case.actors.len() > 1 {
            let last = case.actors.len() - 1;
            let referenced = case.actors.iter().any(|a| a.peer == Some(last) || a.parent.is_some_and(|p| p.parent == last));
            if referenced {
                break;
            }
            let mut c = case.clone();
            c.actors.pop();
            c.grants.retain(|g| g.actor != last);
            if !attempt(c, &mut case, budget) {
                break;
            }
            progress = true;
        }
        // behaviour steps
        for ai in 0..case.actors.len() {
            for si in (0..case.actors[ai].beh.started.len()).rev() {
                let mut c = case.clone();
                c.actors[ai].beh.started.remove(si);
                if attempt(c, &mut case, budget) {
                    progress = true;
                }
            }
            if case.actors[ai].beh.start_fail.is_some() {
                let mut c = case.clone();
                c.actors[ai].beh.start_fail = None;
                if attempt(c, &mut case, budget) {
                    progress = true;
                }
            }
        }
        for bi in 0..case.default_beh.len() {
            if !case.default_beh[bi].started.is_empty() || case.default_beh[bi].start_fail.is_some() {
                let mut c = case.clone();
                c.default_beh[bi] = Behavior::default();
                if attempt(c, &mut case, budget) {
                    progress = true;
                }
            }
        }
        // simplify ops in place: drop work steps, shrink sleeps
        for ci in 0..case.clients.len() {
            for oi in 0..case.clients[ci].len() {
                let simpler: Vec<ClientOp> = match &case.clients[ci][oi] {
                    ClientOp::Send { h, work } | ClientOp::Call { h, work } if !work.is_empty() => {
                        let is_send = matches!(case.clients[ci][oi], ClientOp::Send { .. });
                        let mut v = vec![];
                        let mk = |w: Vec<Step>| if is_send { ClientOp::Send { h: *h, work: w } } else { ClientOp::Call { h: *h, work: w } };
                        v.push(mk(vec![]));
                        for k in 0..work.len() {
                            let mut w = work.clone();
                            w.remove(k);
                            v.push(mk(w));
                        }
                        v
                    }
                    ClientOp::Sleep(t) if *t > 0 => vec![ClientOp::Sleep(0), ClientOp::Sleep(t / 2)],
                    _ => vec![],
                };
                for s in simpler {
                    let mut c = case.clone();
                    c.clients[ci][oi] = s;
                    if attempt(c, &mut case, budget) {
                        progress = true;
                        break;
                    }
                }
            }
        }
        // handle indices towards 0
        for ci in 0..case.clients.len() {
            for oi in 0..case.clients[ci].len() {
                let mut c = case.clone();
                let changed = zero_handle(&mut c.clients[ci][oi]);
                if changed && attempt(c, &mut case, budget) {
                    progress = true;
                }
            }
        }
    }
    case
}

fn zero_handle(op: &mut ClientOp) -> bool {
    use ClientOp::*;
    let h: Option<&mut u16> = match op {
        Send { h, .. } | Call { h, .. } | CallDrop { h, .. } | SendRepoll { h, .. } | SendDrop { h, .. } | JoinStash { h } | JoinDiscard { h } | JoinLazyDetach { h } | JoinPollDrop { h } | RegisterHeld { h } | Ping { h } | Stop { h } | Halt { h } | TryStop { h } | TryHalt { h } | Restart { h } | AwaitClone { h }
        | Join { h } | Consume { h } | ConsumeSync { h } | Detach { h } | Clone { h } | Downgrade { h } | Upgrade { h } | ToSender { h }
        | ToCaller { h } | ToWeakSender { h } | ToWeakCaller { h } | ToAddr { h } | Drop { h } | Give { h, .. } | QueryStopped { h }
        | QueryRunning { h } | SubscribeFor { h, .. } | UnsubscribeFor { h, .. } => Some(h),
        _ => None,
    };
    match h {
        Some(h) if *h != 0 => {
            *h = 0;
            true
        }
        _ => false,
    }
}
