//! Derived view of a history, shared by the oracles.
use std::collections::BTreeMap;

use crate::{
    ctx::ActorRt,
    history::*,
    interp::{RunFlags, RunOutput},
    model::*,
    sim::{TaskEnd, TaskMeta, TaskTag},
};

pub fn steps_duration(w: &[Step]) -> u64 {
    w.iter().map(|s| if let Step::Sleep(t) = s { *t as u64 } else { 0 }).sum()
}

pub fn work_of_case(case: &Case, id: u32) -> Option<&Vec<Step>> {
    let (c, o) = ((id / 1000) as usize, (id % 1000) as usize);
    match case.clients.get(c)?.get(o)? {
        ClientOp::Send { work, .. } | ClientOp::Call { work, .. } | ClientOp::CallDrop { work, .. } | ClientOp::SendRepoll { work, .. } | ClientOp::SendDrop { work, .. } => Some(work),
        _ => None,
    }
}

#[derive(Clone, Debug)]
pub struct OpRec {
    pub client: usize,
    pub op: usize,
    pub what: OpWhat,
    pub actor: Option<ActorId>,
    pub via: Option<HKind>,
    pub msg: Option<u32>,
    pub begin: u64,
    pub begin_time: u64,
    pub end: Option<u64>,
    pub end_time: u64,
    pub res: Option<OpRes>,
    pub polls: u32,
    /// the operation's future returned Pending at least once (known even if it never resolved)
    pub was_pending: bool,
}

impl OpRec {
    pub fn ok(&self) -> bool {
        self.res.as_ref().is_some_and(|r| r.is_ok())
    }
    pub fn err(&self) -> bool {
        self.res.as_ref().is_some_and(|r| r.is_err())
    }
    pub fn reply(&self) -> Option<&Reply> {
        match &self.res {
            Some(OpRes::Reply(r)) => Some(r),
            _ => None,
        }
    }
    /// end stamp, or "never" (u64::MAX)
    pub fn end_or_max(&self) -> u64 {
        self.end.unwrap_or(u64::MAX)
    }
    pub fn is_client(&self) -> bool {
        self.client < 100
    }
}

#[derive(Clone, Debug)]
pub struct InvRec {
    pub actor: ActorId,
    pub value: u32,
    pub inc: u32,
    pub inv: u32,
    pub msg: MsgRef,
    pub enter: u64,
    pub enter_time: u64,
    pub steps: Vec<(u32, u64, u64)>,
    pub exit: Option<u64>,
    pub exit_time: u64,
}

#[derive(Clone, Debug)]
pub struct CbRec {
    pub actor: ActorId,
    pub value: u32,
    pub inc: u32,
    pub cb: Cb,
    pub enter: u64,
    pub enter_time: u64,
    pub exit: Option<u64>,
}

#[derive(Clone, Debug, Default)]
pub struct ActorView {
    /// stamp of the actor task's end and how it ended
    pub task_end: Option<(u64, TaskEnd)>,
    pub spawned: Option<u64>,
    /// earliest stamp at which any possible termination cause was issued (conservative)
    pub first_cause: u64,
    /// the same without the actor's own task end: the earliest thing *outside* the actor's own dying that
    /// could have ended it (u64::MAX: nothing at all)
    pub first_external_cause: u64,
    /// stamps of explicit stop requests issued (begin stamps) with their op index in `ops`
    pub stop_reqs: Vec<usize>,
    /// ctx.stop() stamps (ok ones)
    pub ctx_stops: Vec<u64>,
    /// Stopped callback exit stamp of the final incarnation (graceful end)
    pub stopped_exit: Option<u64>,
    pub graceful: bool,
}

pub struct View<'a> {
    pub case: &'a Case,
    pub hist: &'a History,
    pub tasks: &'a [TaskMeta],
    pub rt: &'a [ActorRt],
    pub flags: &'a RunFlags,
    pub ops: Vec<OpRec>,
    pub invs: Vec<InvRec>,
    pub cbs: Vec<CbRec>,
    pub actors: Vec<ActorView>,
    pub phase_at: BTreeMap<Phase, u64>,
}

impl<'a> View<'a> {
    pub fn new(case: &'a Case, out: &'a RunOutput) -> View<'a> {
        let mut ops: Vec<OpRec> = Vec::new();
        let mut op_idx: BTreeMap<(usize, usize), usize> = BTreeMap::new();
        let mut invs: Vec<InvRec> = Vec::new();
        let mut inv_idx: BTreeMap<u32, usize> = BTreeMap::new();
        let mut cbs: Vec<CbRec> = Vec::new();
        let mut actors: Vec<ActorView> =
            (0..out.actors.len()).map(|_| ActorView { first_cause: u64::MAX, first_external_cause: u64::MAX, ..Default::default() }).collect();
        let mut phase_at = BTreeMap::new();
        for e in &out.hist {
            match &e.kind {
                EvKind::Phase(p) => {
                    phase_at.insert(*p, e.stamp);
                }
                EvKind::OpBegin { client, op, what, actor, via, msg } => {
                    // handler-side pseudo ops (client >= 100) may repeat their (client, op) key
                    op_idx.insert((*client, *op), ops.len());
                    ops.push(OpRec {
                        client: *client,
                        op: *op,
                        what: *what,
                        actor: *actor,
                        via: *via,
                        msg: *msg,
                        begin: e.stamp,
                        begin_time: e.time,
                        end: None,
                        end_time: 0,
                        res: None,
                        polls: 0,
                        was_pending: false,
                    });
                }
                EvKind::OpEnd { client, op, res, polls } => {
                    if let Some(i) = op_idx.get(&(*client, *op)) {
                        let o = &mut ops[*i];
                        o.end = Some(e.stamp);
                        o.end_time = e.time;
                        o.res = Some(res.clone());
                        o.polls = *polls;
                    }
                }
                EvKind::OpFirstPending { client, op } => {
                    if let Some(i) = op_idx.get(&(*client, *op)) {
                        ops[*i].was_pending = true;
                    }
                }
                EvKind::HEnter { actor, value, inc, inv, msg } => {
                    inv_idx.insert(*inv, invs.len());
                    invs.push(InvRec {
                        actor: *actor,
                        value: *value,
                        inc: *inc,
                        inv: *inv,
                        msg: msg.clone(),
                        enter: e.stamp,
                        enter_time: e.time,
                        steps: vec![],
                        exit: None,
                        exit_time: 0,
                    });
                }
                EvKind::HStep { inv, idx, .. } => {
                    if let Some(i) = inv_idx.get(inv) {
                        invs[*i].steps.push((*idx, e.stamp, e.time));
                    }
                }
                EvKind::HExit { inv, .. } => {
                    if let Some(i) = inv_idx.get(inv) {
                        invs[*i].exit = Some(e.stamp);
                        invs[*i].exit_time = e.time;
                    }
                }
                EvKind::Cb { actor, value, inc, cb, enter } => {
                    if *enter {
                        cbs.push(CbRec {
                            actor: *actor,
                            value: *value,
                            inc: *inc,
                            cb: *cb,
                            enter: e.stamp,
                            enter_time: e.time,
                            exit: None,
                        });
                    } else if let Some(c) = cbs
                        .iter_mut()
                        .rev()
                        .find(|c| c.actor == *actor && c.cb == *cb && c.value == *value && c.exit.is_none())
                    {
                        c.exit = Some(e.stamp);
                    }
                }
                EvKind::Spawn { tag: TaskTag::Actor(a), .. } => {
                    if let Some(av) = actors.get_mut(*a) {
                        av.spawned = Some(e.stamp);
                    }
                }
                EvKind::TaskEnd { tag: TaskTag::Actor(a), end, .. } => {
                    if let Some(av) = actors.get_mut(*a) {
                        av.task_end = Some((e.stamp, *end));
                    }
                }
                EvKind::CtxOp { actor, op: CtxOpKind::Stop, ok: true, .. } => {
                    actors[*actor].ctx_stops.push(e.stamp);
                }
                _ => {}
            }
        }
        // operations that were only begun after the run phase was over (a client that had been
        // waiting for a long time came back during settle/drain) and did not finish are not
        // evidence of anything: the harness stopped the world on them
        if let Some(&settle) = phase_at.get(&Phase::Settle) {
            ops.retain(|o| !(o.end.is_none() && o.begin > settle));
        }
        for (i, o) in ops.iter().enumerate() {
            if let Some(a) = o.actor {
                if matches!(
                    o.what,
                    OpWhat::Stop | OpWhat::Halt | OpWhat::TryStop | OpWhat::TryHalt | OpWhat::Consume | OpWhat::ConsumeSync
                ) {
                    if let Some(av) = actors.get_mut(a) {
                        av.stop_reqs.push(i);
                    }
                }
            }
        }
        // graceful end: final Stopped callback completed and the task is Done
        for (a, av) in actors.iter_mut().enumerate() {
            let last_stopped = cbs.iter().rev().find(|c| c.actor == a && c.cb == Cb::Stopped);
            av.stopped_exit = last_stopped.and_then(|c| c.exit);
            // fail_on_timeout: an invocation that needs more than the limit makes the actor fail
            let timeout_failed = match out.actors.get(a).and_then(|r| r.timeout) {
                Some((t, true)) => invs.iter().any(|i| {
                    i.actor == a
                        && match &i.msg {
                            MsgRef::Client(id) => work_of_case(case, *id).is_some_and(|w| steps_duration(w) > t as u64),
                            _ => false,
                        }
                }),
                _ => false,
            };
            av.graceful = matches!(av.task_end, Some((_, TaskEnd::Done)))
                && !timeout_failed
                && av.stopped_exit.is_some()
                // a lifecycle callback that was entered and never left (it panicked) is a failure
                && !cbs.iter().any(|c| c.actor == a && c.exit.is_none())
                && !out.hist.iter().any(|e| {
                    matches!(&e.kind, EvKind::Note(n) if n.starts_with(&format!("started-err actor={a} ")))
                });
        }
        let mut v = View {
            case,
            hist: &out.hist,
            tasks: &out.tasks,
            rt: &out.actors,
            flags: &out.flags,
            ops,
            invs,
            cbs,
            actors,
            phase_at,
        };
        v.compute_first_causes();
        v
    }

    pub fn phase(&self, p: Phase) -> u64 {
        self.phase_at.get(&p).copied().unwrap_or(u64::MAX)
    }

    /// Conservative over-approximation of "a termination cause for this actor has been issued":
    /// the earliest stamp of anything that could legitimately make the actor end.
    fn compute_first_causes(&mut self) {
        let ext = self.first_causes(false);
        let all = self.first_causes(true);
        for a in 0..self.actors.len() {
            self.actors[a].first_cause = all[a];
            self.actors[a].first_external_cause = ext[a];
        }
    }

    fn first_causes(&self, own_end: bool) -> Vec<u64> {
        let n = self.actors.len();
        let mut cause = vec![u64::MAX; n];
        let mut upd = |a: usize, s: u64| {
            if a < n && s < cause[a] {
                cause[a] = s;
            }
        };
        // known strong handles per actor (harness-held); registry entries, parents and peers are
        // handled through the events below
        let mut strong: Vec<i64> = vec![0; n];
        let mut ever_strong: Vec<bool> = vec![false; n];
        let teardown = self.phase(Phase::Teardown);
        for e in self.hist {
            match &e.kind {
                EvKind::HandleNew { actor, kind, .. } if kind.strong() => {
                    strong[*actor] += 1;
                    ever_strong[*actor] = true;
                }
                EvKind::HandleDrop { actor, kind, .. } if kind.strong() => {
                    strong[*actor] -= 1;
                    if strong[*actor] <= 0 {
                        upd(*actor, e.stamp);
                    }
                }
                EvKind::OpBegin { what, actor: Some(a), .. } => match what {
                    OpWhat::Stop
                    | OpWhat::Halt
                    | OpWhat::TryStop
                    | OpWhat::TryHalt
                    | OpWhat::Consume
                    | OpWhat::ConsumeSync
                    | OpWhat::EndStream => upd(*a, e.stamp),
                    _ => {}
                },
                // registry manipulation may release the registry's strong entry
                EvKind::OpBegin { client, op: opi, what: OpWhat::Reg(op, kind), .. } => {
                    // a register() that was refused changes nothing - except for its own candidate, which may
                    // have lost its only handle inside the library (the builder's terminal)
                    let refused = self.ops.iter().find(|o| o.client == *client && o.op == *opi).and_then(|o| match &o.res {
                        Some(OpRes::Reg(RegRes::RegisterErr { me, .. })) => Some(*me),
                        _ => None,
                    });
                    if let Some(me) = refused {
                        upd(me, e.stamp);
                    } else if matches!(op, RegOp::Unregister | RegOp::Replace | RegOp::Register) {
                        for (a, rt) in self.rt.iter().enumerate() {
                            if rt.kind == *kind {
                                upd(a, e.stamp);
                            }
                        }
                    }
                }
                EvKind::CtxOp { actor, op: CtxOpKind::Stop, .. } => upd(*actor, e.stamp),
                EvKind::TaskEnd { tag: TaskTag::Actor(a), .. } => {
                    if own_end {
                        upd(*a, e.stamp);
                    }
                    // children and peers of `a` may be released now
                    for (s, spec) in self.case.actors.iter().enumerate() {
                        if spec.parent.is_some_and(|p| p.parent == *a) {
                            upd(s, e.stamp);
                        }
                    }
                    if let Some(Some(p)) = self.case.actors.get(*a).map(|s| s.peer) {
                        upd(p, e.stamp);
                    }
                }
                EvKind::StreamEnded { stream } => {
                    // which actor?  streams are created in actor order; find through Feed/End ops is
                    // unreliable, so be conservative: every stream-attached actor
                    let _ = stream;
                    for (a, rt) in self.rt.iter().enumerate() {
                        if rt.stream {
                            upd(a, e.stamp);
                        }
                    }
                }
                EvKind::Phase(Phase::Teardown) => {
                    for a in 0..n {
                        upd(a, e.stamp);
                    }
                }
                _ => {}
            }
        }
        let _ = teardown;
        // faults and failing configurations: the actor may end from the moment the faulty callback starts
        for f in &self.case.faults {
            match f {
                Fault::CancelActor { actor, .. } => {
                    if let Some(s) = self.actors.get(*actor).and_then(|a| a.spawned) {
                        upd(*actor, s);
                    }
                }
                Fault::HandlerPanic { actor, .. } | Fault::StopPanic { actor } | Fault::FinishPanic { actor } | Fault::StartFail { actor, .. } => {
                    if let Some(s) = self.actors.get(*actor).and_then(|a| a.spawned) {
                        upd(*actor, s);
                    }
                }
            }
        }
        for (a, rt) in self.rt.iter().enumerate() {
            let spawned = self.actors[a].spawned.unwrap_or(0);
            // configured start failure / stop panic / fail_on_timeout / panic steps: conservative
            let beh_fail = |b: &Behavior| b.start_fail.is_some() || b.stop_panic;
            let slot_fail = rt.slot.is_some_and(|s| beh_fail(&self.case.actors[s].beh));
            let def_fail = self.case.default_beh.get(rt.kind as usize).is_some_and(beh_fail);
            if slot_fail || (def_fail && (rt.slot.is_none() || rt.strategy == RStrat::Recreate)) {
                upd(a, spawned);
            }
            if matches!(rt.timeout, Some((_, true))) {
                upd(a, spawned);
            }
            // never had a strong handle known to the harness and not a child / registry entry
            if !ever_strong[a] && rt.origin == Origin::Setup {
                upd(a, spawned);
            }
        }
        // a handler that contains a Panic step: from its enter
        for i in &self.invs {
            if self.inv_has_panic_step(i) {
                upd(i.actor, i.enter);
            }
        }
        cause
    }

    fn inv_has_panic_step(&self, i: &InvRec) -> bool {
        match &i.msg {
            MsgRef::Client(id) => self.work_of(*id).is_some_and(|w| w.iter().any(|s| matches!(s, Step::Panic))),
            _ => false,
        }
    }

    pub fn work_of(&self, id: u32) -> Option<&'a Vec<Step>> {
        work_of_case(self.case, id)
    }

    /// the actor is certainly alive at every stamp < this
    pub fn alive_until(&self, a: ActorId) -> u64 {
        self.actors[a].first_cause
    }

    /// From this stamp on no client operation on actor `a` that overlaps stamp `z` - directly or through a
    /// chain of overlapping operations (a weak call that still upgrades because another operation holds a
    /// temporary strong handle) - is in flight any more; u64::MAX if one of them never ended.
    pub fn quiet_after(&self, a: ActorId, z: u64) -> u64 {
        let mut from = z;
        loop {
            let next = self.ops.iter().filter(|p| p.actor == Some(a) && p.begin < from && p.end_or_max() > from).map(|p| p.end_or_max()).max();
            match next {
                Some(n) if n > from => from = n,
                _ => return from,
            }
        }
    }

    /// nothing outside the actor itself could have ended it before this stamp (u64::MAX: nothing ever)
    pub fn external_cause(&self, a: ActorId) -> u64 {
        self.actors[a].first_external_cause
    }

    /// the actor task has certainly ended at every stamp > this
    pub fn dead_from(&self, a: ActorId) -> u64 {
        self.actors[a].task_end.map(|(s, _)| s).unwrap_or(u64::MAX)
    }

    /// A timer registered by actor `a` at `reg_stamp` certainly stays registered up to this stamp: the
    /// first possible end of the actor, or the `stopped` callback that ends the registering incarnation
    /// (a restart aborts the timers after that callback) - nothing at all for a timer registered inside
    /// a `stopped` callback.
    pub fn timer_valid_until(&self, a: ActorId, reg_stamp: u64) -> u64 {
        let mut limit = self.alive_until(a);
        for c in self.cbs.iter().filter(|c| c.actor == a && c.cb == Cb::Stopped) {
            if c.enter > reg_stamp {
                limit = limit.min(c.enter);
            } else if c.exit.is_none_or(|x| x > reg_stamp) {
                limit = limit.min(reg_stamp);
            }
        }
        limit
    }

    pub fn inv_of_msg(&self, id: u32) -> Vec<&InvRec> {
        self.invs.iter().filter(|i| i.msg == MsgRef::Client(id)).collect()
    }

    pub fn client_ops(&self) -> impl Iterator<Item = &OpRec> {
        self.ops.iter().filter(|o| o.is_client())
    }

    /// short rendering of the history for evidence samples and replay files
    pub fn excerpt(&self, max: usize) -> Vec<String> {
        self.hist
            .iter()
            .filter(|e| !matches!(e.kind, EvKind::HStep { .. }))
            .take(max)
            .map(|e| format!("{} t={} {:?}", e.stamp, e.time, e.kind))
            .collect()
    }
}
