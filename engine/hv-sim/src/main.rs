use hv_sim::{interp::run_case, model::*};

fn main() {
    let case = Case {
        family: Family::C01,
        actors: vec![ActorSpec { kind: 0, spawn: SpawnSpec::Build{mailbox: Mailbox::Bounded(1), strategy: Strategy::Default, timeout: None, fail_on_timeout: false, owning: true}, parent: None, beh: Behavior{ started: vec![Step::AddTimer(TimerSpec{kind: TimerKind::Interval, ticks: 5, work: vec![]})], ..Default::default()}, peer: None }],
        default_beh: vec![Behavior::default(), Behavior::default()],
        grants: vec![Grant { client: 0, actor: 0, kind: HKind::Owning }, Grant { client: 1, actor: 0, kind: HKind::Sender }],
        clients: vec![
            vec![ClientOp::Call { h: 0, work: vec![Step::Sleep(12)] }, ClientOp::Send { h: 0, work: vec![] }, ClientOp::Ping{h:0}, ClientOp::Consume{h:0}],
            vec![ClientOp::Send { h: 0, work: vec![Step::Yield] }, ClientOp::Send { h: 0, work: vec![] }, ClientOp::Send { h: 0, work: vec![] }],
        ],
        faults: vec![],
        schedule: vec![0, 200, 100, 7],
        settle: 10,
    };
    let out = std::thread::spawn(move || run_case(&case)).join().unwrap();
    for e in &out.hist {
        println!("{:4} t={:3} task={:?} {:?}", e.stamp, e.time, e.task, e.kind);
    }
    println!("{:?}", out.flags);
    for (i, t) in out.tasks.iter().enumerate() { println!("task {i}: {:?}", t); }
}
