use std::path::PathBuf;

use hv_sim::{driver::*, model::Family, sim::install_panic_hook};

fn usage() -> ! {
    eprintln!("usage: hv check <Cxx> quick|thorough | hv worker <Cxx> <seed> <cases> <big> <out> | hv replay <file> [--quiet] | hv stats <Cxx> <n> [big] [seed] [show]");
    std::process::exit(2)
}

fn main() {
    let args: Vec<String> = std::env::args().collect();
    if args.len() < 2 {
        usage();
    }
    install_panic_hook();
    match args[1].as_str() {
        "check" => {
            let fam = args.get(2).and_then(|s| Family::parse(s)).unwrap_or_else(|| usage());
            let tier = args.get(3).map(String::as_str).unwrap_or("quick");
            std::process::exit(run_parent(fam, tier));
        }
        "worker" => {
            if args.len() < 7 {
                usage();
            }
            let fam = Family::parse(&args[2]).unwrap_or_else(|| usage());
            let seed: u64 = args[3].parse().unwrap_or_else(|_| usage());
            let cases: u32 = args[4].parse().unwrap_or_else(|_| usage());
            let big = args[5] == "1";
            let out = worker(fam, seed, cases, big);
            std::fs::write(&args[6], serde_json::to_string(&out).unwrap()).expect("write worker output");
        }
        "replay" => {
            let file = PathBuf::from(args.get(2).unwrap_or_else(|| usage()));
            let quiet = args.iter().any(|a| a == "--quiet");
            let rep = match read_replay(&file) {
                Ok(r) => r,
                Err(e) => {
                    eprintln!("{e}");
                    std::process::exit(2);
                }
            };
            match replay(&rep, 16) {
                ReplayResult::Reproduced(v) => {
                    if !quiet {
                        println!("VIOLATION property={} replay={} signature={}", rep.property, file.display(), v.sig);
                        println!("{}", v.detail);
                    }
                    std::process::exit(1);
                }
                ReplayResult::NotReproduced => {
                    if !quiet {
                        println!("not reproduced: property {} held on this case", rep.property);
                    }
                }
                ReplayResult::HarnessError(e) => {
                    eprintln!("HARNESS-ERROR: {e}");
                    std::process::exit(2);
                }
            }
        }
        "show" => {
            // debugging aid: run the case of a replay file and print the history and every violation
            let rep = read_replay(&PathBuf::from(&args[2])).unwrap();
            hv_sim::driver::burn_ordinals(rep.ordinal);
            let (run, _) = run_on_thread(&rep.case).unwrap();
            let v = hv_sim::analysis::View::new(&rep.case, &run);
            for l in v.excerpt(2000) {
                println!("{l}");
            }
            println!("{:?}", run.flags);
            for (a, av) in v.actors.iter().enumerate() {
                println!("actor {a}: first_cause={} task_end={:?} graceful={} stopped_exit={:?}", av.first_cause, av.task_end, av.graceful, av.stopped_exit);
            }
            let vd = hv_sim::oracle::check(&rep.case, &run);
            for x in &vd.violations {
                println!("VIOL {} :: {}", x.sig, x.detail);
            }
            println!("classes {:?} nontrivial {}", vd.classes, vd.nontrivial);
        }
        "decode" => {
            // debugging aid: decode a fuzzer input the way the fuzz target does
            let fam = args.get(2).and_then(|s| Family::parse(s)).unwrap_or_else(|| usage());
            let bytes = std::fs::read(&args[3]).unwrap();
            match hv_sim::fuzzdec::decode(fam, true, &bytes) {
                Some(case) => println!("{}", serde_json::to_string(&case).unwrap()),
                None => println!("(input too short)"),
            }
        }
        "stats" => {
            let fam = args.get(2).and_then(|s| Family::parse(s)).unwrap_or_else(|| usage());
            let n: u32 = args.get(3).and_then(|s| s.parse().ok()).unwrap_or(1000);
            let big = args.get(4).is_some_and(|s| s == "1");
            let seed: u64 = args.get(5).and_then(|s| s.parse().ok()).unwrap_or(1);
            let show: usize = args.get(6).and_then(|s| s.parse().ok()).unwrap_or(3);
            gen_stats(fam, n, big, seed, show);
        }
        _ => usage(),
    }
}
