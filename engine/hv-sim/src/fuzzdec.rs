//! Decoder for the coverage-guided (libFuzzer) generator: an input is
//!   [8 bytes seed] [1 byte n] [n schedule bytes] [4-byte edits ...]
//! The seed selects a base case from the family's proptest strategy; the schedule bytes replace
//! its schedule; every edit is a small structural change of the typed case (swap / delete /
//! duplicate / move an op, retarget a handle, insert a yield, change a sleep, change the mailbox,
//! move a fault, change a grant).  Small changes of the input are small changes of the case, so
//! libFuzzer's coverage feedback (over hannibal, futures-channel and the interpreter) steers a
//! local search around generated programs.  Every decoded case is valid by construction:
//! `normalize` re-establishes the family's generator invariants after the edits.
use proptest::{
    strategy::{Strategy, ValueTree},
    test_runner::{Config, TestRunner},
};

use crate::{driver::seed_rng, model::*, r#gen};

fn pick<T>(v: &[T], b: u8) -> Option<usize> {
    if v.is_empty() { None } else { Some((b as usize * v.len()) >> 8) }
}

fn handle_of(op: &mut ClientOp) -> Option<&mut u16> {
    use ClientOp::*;
    match op {
        Send { h, .. } | Call { h, .. } | CallDrop { h, .. } | SendRepoll { h, .. } | SendDrop { h, .. } | JoinStash { h } | JoinDiscard { h } | JoinLazyDetach { h } | JoinPollDrop { h } | RegisterHeld { h } | Ping { h } | Stop { h } | Halt { h } | TryStop { h } | TryHalt { h } | Restart { h } | AwaitClone { h }
        | Join { h } | Consume { h } | ConsumeSync { h } | Detach { h } | Clone { h } | Downgrade { h } | Upgrade { h } | ToSender { h }
        | ToCaller { h } | ToWeakSender { h } | ToWeakCaller { h } | ToAddr { h } | Drop { h } | Give { h, .. } | QueryStopped { h }
        | QueryRunning { h } | SubscribeFor { h, .. } | UnsubscribeFor { h, .. } => Some(h),
        _ => None,
    }
}

pub fn decode(family: Family, big: bool, data: &[u8]) -> Option<Case> {
    if data.len() < 9 {
        return None;
    }
    let seed = u64::from_le_bytes(data[..8].try_into().ok()?);
    let mut runner = TestRunner::new_with_rng(Config { failure_persistence: None, ..Config::default() }, seed_rng(seed));
    let mut case = r#gen::strategy(family, big).new_tree(&mut runner).ok()?.current();
    let n = (data[8] as usize).min(96).min(data.len() - 9);
    if n > 0 {
        case.schedule = data[9..9 + n].to_vec();
    }
    let mut rest = &data[9 + n..];
    let mut edits = 0;
    while rest.len() >= 4 && edits < 24 {
        let (k, a, b, c) = (rest[0], rest[1], rest[2], rest[3]);
        rest = &rest[4..];
        edits += 1;
        let Some(ci) = pick(&case.clients, a) else { continue };
        match k % 12 {
            0 => {
                // swap two ops of a client
                let len = case.clients[ci].len();
                if len >= 2 {
                    let (i, j) = ((b as usize * len) >> 8, (c as usize * len) >> 8);
                    case.clients[ci].swap(i, j);
                }
            }
            1 => {
                if let Some(i) = pick(&case.clients[ci], b) {
                    if case.clients[ci].len() > 1 {
                        case.clients[ci].remove(i);
                    }
                }
            }
            2 => {
                if let Some(i) = pick(&case.clients[ci], b) {
                    if case.clients[ci].len() < 24 {
                        let op = case.clients[ci][i].clone();
                        let at = (c as usize * (case.clients[ci].len() + 1)) >> 8;
                        case.clients[ci].insert(at, op);
                    }
                }
            }
            3 => {
                // move an op to another client
                if let (Some(i), Some(cj)) = (pick(&case.clients[ci], b), pick(&case.clients, c)) {
                    if cj != ci && case.clients[ci].len() > 1 && case.clients[cj].len() < 24 {
                        let op = case.clients[ci].remove(i);
                        case.clients[cj].push(op);
                    }
                }
            }
            4 => {
                if let Some(i) = pick(&case.clients[ci], b) {
                    if let Some(h) = handle_of(&mut case.clients[ci][i]) {
                        *h = (c as u16) << 8;
                    }
                }
            }
            5 => {
                if let Some(i) = pick(&case.clients[ci], b) {
                    if case.clients[ci].len() < 24 {
                        case.clients[ci].insert(i, if c & 1 == 0 { ClientOp::Yield } else { ClientOp::Sleep((c >> 4) as u32) });
                    }
                }
            }
            6 => {
                // change the duration / shape of a handler
                if let Some(i) = pick(&case.clients[ci], b) {
                    if let ClientOp::Send { work, .. } | ClientOp::Call { work, .. } | ClientOp::CallDrop { work, .. } | ClientOp::SendRepoll { work, .. } | ClientOp::SendDrop { work, .. } = &mut case.clients[ci][i] {
                        match c % 4 {
                            0 => work.insert(0, Step::Yield),
                            1 => work.push(Step::Sleep((c >> 3) as u32)),
                            2 => {
                                work.pop();
                            }
                            _ => {
                                for s in work.iter_mut() {
                                    if let Step::Sleep(t) = s {
                                        *t = (*t + (c >> 4) as u32) % 64;
                                    }
                                }
                            }
                        }
                        work.truncate(4);
                    }
                }
            }
            7 => {
                // mailbox kind of a builder-spawned actor
                if let Some(ai) = pick(&case.actors, b) {
                    let mb = if c % 5 == 4 { Mailbox::Unbounded } else { Mailbox::Bounded(c % 5) };
                    match &mut case.actors[ai].spawn {
                        SpawnSpec::Build { mailbox, .. } => *mailbox = mb,
                        SpawnSpec::Stream { builder: Some(m), .. } | SpawnSpec::Register { builder: Some(m), .. } => *m = mb,
                        _ => {}
                    }
                }
            }
            8 => {
                if let Some(fi) = pick(&case.faults, b) {
                    match &mut case.faults[fi] {
                        Fault::CancelActor { before_poll, .. } => *before_poll = (c % 24) as u32,
                        Fault::HandlerPanic { kth, .. } => *kth = (c % 12) as u32,
                        _ => {}
                    }
                }
            }
            9 => {
                if let Some(gi) = pick(&case.grants, b) {
                    let kinds = [HKind::Addr, HKind::Sender, HKind::Caller, HKind::WeakAddr, HKind::WeakSender, HKind::WeakCaller];
                    if case.grants[gi].kind != HKind::Owning {
                        case.grants[gi].kind = kinds[c as usize % kinds.len()];
                    }
                }
            }
            10 => {
                // turn a send into a call and vice versa (switches the submission path)
                if let Some(i) = pick(&case.clients[ci], b) {
                    let op = case.clients[ci][i].clone();
                    case.clients[ci][i] = match op {
                        ClientOp::Send { h, work } => ClientOp::Call { h, work },
                        ClientOp::Call { h, work } => ClientOp::Send { h, work },
                        o => o,
                    };
                }
            }
            _ => {
                // copy an op from another client
                if let Some(cj) = pick(&case.clients, c) {
                    if let Some(i) = pick(&case.clients[cj], b) {
                        if case.clients[ci].len() < 24 {
                            let op = case.clients[cj][i].clone();
                            case.clients[ci].push(op);
                        }
                    }
                }
            }
        }
    }
    r#gen::normalize(&mut case);
    Some(case)
}
