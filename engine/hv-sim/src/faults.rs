//! Exhaustive single-fault enumeration for C06: kind x position, positions taken from the
//! fault-free run of the program.
use crate::{history::*, interp::RunOutput, model::*, sim::TaskTag};

/// positions beyond this are not enumerated (only reached when a client waits for a timer-driven
/// actor until the harness horizon)
pub const MAX_POSITIONS: u32 = 40;

pub fn enumerate(case: &Case, base: &RunOutput, pairs: bool) -> Vec<Case> {
    let t = 0usize;
    let mut out = vec![];
    let mut with = |f: Vec<Fault>, spawn: Option<SpawnSpec>| {
        let mut c = case.clone();
        c.faults = f;
        if let Some(s) = spawn {
            c.actors[t].spawn = s;
        }
        out.push(c);
    };
    let invocations = base.hist.iter().filter(|e| matches!(&e.kind, EvKind::HEnter { actor, .. } if *actor == t)).count() as u32;
    let polls = base.tasks.iter().find(|m| m.tag == TaskTag::Actor(t)).map(|m| m.polls).unwrap_or(0);
    let mut singles: Vec<Fault> = vec![];
    singles.push(Fault::StartFail { actor: t, inc: 0, how: FailHow::Err });
    singles.push(Fault::StartFail { actor: t, inc: 0, how: FailHow::Panic });
    // a failing restart (only meaningful if the program restarts T)
    let restarts = base.hist.iter().filter(|e| matches!(&e.kind, EvKind::Cb { actor, cb: Cb::Started, enter: true, .. } if *actor == t)).count() as u32;
    for inc in 1..restarts.min(3) {
        singles.push(Fault::StartFail { actor: t, inc, how: FailHow::Err });
        singles.push(Fault::StartFail { actor: t, inc, how: FailHow::Panic });
    }
    for k in 0..invocations.min(MAX_POSITIONS) {
        singles.push(Fault::HandlerPanic { actor: t, kth: k });
    }
    singles.push(Fault::StopPanic { actor: t });
    if matches!(case.actors[t].spawn, SpawnSpec::Stream { .. }) {
        singles.push(Fault::FinishPanic { actor: t });
    }
    for j in 0..=polls.min(MAX_POSITIONS) {
        singles.push(Fault::CancelActor { actor: t, before_poll: j });
    }
    for f in &singles {
        with(vec![*f], None);
    }
    // timeout with fail_on_timeout: one variant per distinct handler duration >= 2
    if let SpawnSpec::Build { mailbox, strategy, owning, .. } = &case.actors[t].spawn {
        let mut durs: Vec<u32> = vec![];
        for cl in &case.clients {
            for op in cl {
                if let ClientOp::Send { work, .. } | ClientOp::Call { work, .. } | ClientOp::CallDrop { work, .. } | ClientOp::SendRepoll { work, .. } | ClientOp::SendDrop { work, .. } = op {
                    let d: u32 = work.iter().map(|s| if let Step::Sleep(x) = s { *x } else { 0 }).sum();
                    if d >= 2 && !durs.contains(&d) {
                        durs.push(d);
                    }
                }
            }
        }
        durs.sort();
        for d in durs.into_iter().take(3) {
            // never equal to another handler's duration
            let t_out = d - 1;
            let clash = case.clients.iter().flatten().any(|op| match op {
                ClientOp::Send { work, .. } | ClientOp::Call { work, .. } | ClientOp::CallDrop { work, .. } | ClientOp::SendRepoll { work, .. } | ClientOp::SendDrop { work, .. } => work.iter().map(|s| if let Step::Sleep(x) = s { *x } else { 0 }).sum::<u32>() == t_out && t_out > 0,
                _ => false,
            });
            if clash || t_out == 0 {
                continue;
            }
            with(vec![], Some(SpawnSpec::Build { mailbox: *mailbox, strategy: *strategy, timeout: Some(t_out), fail_on_timeout: true, owning: *owning }));
        }
    }
    if pairs {
        // sampled pairs: a stop panic or a late cancellation on top of every other single fault
        let n = singles.len();
        for (i, f) in singles.iter().enumerate() {
            let g = singles[(i * 7 + 3) % n];
            if *f != g {
                with(vec![*f, g], None);
            }
        }
    }
    out
}
