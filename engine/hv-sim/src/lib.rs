pub mod ctx;
pub mod history;
pub mod interp;
pub mod model;
pub mod probe;
pub mod sim;
