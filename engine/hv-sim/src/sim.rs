//! Deterministic single-threaded executor with a virtual clock.
//!
//! * every task (client, actor loop, timer, aux) is one boxed future;
//! * which runnable task is polled next is decided by the case's schedule bytes;
//! * time is virtual (1 tick = 1 ms) and only advances when nothing is runnable;
//! * a task can be cancelled (dropped) before its j-th poll;
//! * panics inside a poll are caught; the task is dropped (what tokio does).
use std::{
    cell::{Cell, RefCell},
    collections::{BTreeMap, BTreeSet},
    future::Future,
    panic::{AssertUnwindSafe, catch_unwind},
    pin::Pin,
    rc::Rc,
    sync::{Arc, Mutex},
    task::{Context, Poll, Waker},
    time::Duration,
};

use futures::task::{ArcWake, waker};
use hannibal::verif::{Backend, BoxFut};

pub type TaskId = usize;
pub type LocalFut = Pin<Box<dyn Future<Output = ()> + 'static>>;

#[derive(Clone, Copy, Debug, PartialEq, Eq, serde::Serialize)]
pub enum TaskTag {
    /// harness client task
    Client(usize),
    /// harness helper (janitor)
    Harness,
    /// event loop of actor `actor id`
    Actor(usize),
    /// timer task `timer id` of actor `actor id`
    Timer { actor: usize, timer: usize },
    /// anything the library spawned that the harness did not announce (broker loops ...)
    Aux,
}

#[derive(Clone, Copy, Debug, PartialEq, Eq, serde::Serialize)]
pub enum TaskEnd {
    Done,
    Panicked { injected: bool },
    Cancelled,
}

#[derive(Clone, Debug)]
pub struct TaskMeta {
    pub tag: TaskTag,
    pub polls: u32,
    pub end: Option<TaskEnd>,
    pub spawned_by: Option<TaskId>,
}

struct Clock {
    now: u64,
    seq: u64,
    timers: BTreeMap<(u64, u64), Option<Waker>>,
}

pub struct SleepFut {
    clock: Arc<Mutex<Clock>>,
    key: (u64, u64),
    done: bool,
}

impl Future for SleepFut {
    type Output = ();
    fn poll(mut self: Pin<&mut Self>, cx: &mut Context<'_>) -> Poll<()> {
        if self.done {
            return Poll::Ready(());
        }
        let key = self.key;
        let mut c = self.clock.lock().unwrap();
        if c.now >= key.0 {
            c.timers.remove(&key);
            drop(c);
            self.done = true;
            Poll::Ready(())
        } else {
            c.timers.insert(key, Some(cx.waker().clone()));
            Poll::Pending
        }
    }
}

impl Drop for SleepFut {
    fn drop(&mut self) {
        if !self.done {
            if let Ok(mut c) = self.clock.lock() {
                c.timers.remove(&self.key);
            }
        }
    }
}

struct WakeEntry {
    id: TaskId,
    ready: Arc<Mutex<BTreeSet<TaskId>>>,
}

impl ArcWake for WakeEntry {
    fn wake_by_ref(a: &Arc<Self>) {
        a.ready.lock().unwrap().insert(a.id);
    }
}

/// marker payload of panics the harness injects on purpose
pub struct InjectedPanic;

thread_local! {
    static LAST_PANIC_LOC: RefCell<Option<String>> = const { RefCell::new(None) };
}

/// Process-wide panic hook: injected panics are silent, all others record their location (the
/// executor attaches it to `foreign_panics`) and are printed only with HV_VERBOSE=1.
pub fn install_panic_hook() {
    let verbose = std::env::var_os("HV_VERBOSE").is_some();
    std::panic::set_hook(Box::new(move |info| {
        if info.payload().is::<InjectedPanic>() {
            return;
        }
        let loc = info.location().map(|l| format!("{}:{}", l.file(), l.line())).unwrap_or_default();
        LAST_PANIC_LOC.with(|c| *c.borrow_mut() = Some(loc.clone()));
        if verbose {
            eprintln!("panic at {loc}: {info}");
        }
    }));
}

#[derive(Clone, Copy, Debug, PartialEq, Eq)]
pub enum SimEvent {
    Spawned(TaskId),
    Ended(TaskId, TaskEnd),
}

pub struct Sim {
    tasks: RefCell<BTreeMap<TaskId, LocalFut>>,
    pub meta: RefCell<Vec<TaskMeta>>,
    ready: Arc<Mutex<BTreeSet<TaskId>>>,
    clock: Arc<Mutex<Clock>>,
    current: Cell<Option<TaskId>>,
    pending_tag: RefCell<Option<TaskTag>>,
    schedule: RefCell<Vec<u8>>,
    sched_pos: Cell<usize>,
    last_polled: Cell<TaskId>,
    pub steps: Cell<u64>,
    pub choices: Cell<u64>,
    /// cancel `task tag` before its j-th poll (0-based poll index)
    cancels: RefCell<Vec<(TaskTag, u32)>>,
    /// observer for spawn / end events (the interpreter logs them into the history)
    pub on_event: RefCell<Option<Box<dyn Fn(SimEvent)>>>,
    /// panic messages that were not injected: (task, message)
    pub foreign_panics: RefCell<Vec<(TaskId, String)>>,
}

impl Sim {
    pub fn new(schedule: Vec<u8>) -> Rc<Self> {
        Rc::new(Sim {
            tasks: RefCell::new(BTreeMap::new()),
            meta: RefCell::new(Vec::new()),
            ready: Arc::new(Mutex::new(BTreeSet::new())),
            clock: Arc::new(Mutex::new(Clock { now: 0, seq: 0, timers: BTreeMap::new() })),
            current: Cell::new(None),
            pending_tag: RefCell::new(None),
            schedule: RefCell::new(schedule),
            sched_pos: Cell::new(0),
            last_polled: Cell::new(0),
            steps: Cell::new(0),
            choices: Cell::new(0),
            cancels: RefCell::new(Vec::new()),
            on_event: RefCell::new(None),
            foreign_panics: RefCell::new(Vec::new()),
        })
    }

    pub fn now(&self) -> u64 {
        self.clock.lock().unwrap().now
    }

    pub fn current(&self) -> Option<TaskId> {
        self.current.get()
    }

    pub fn current_tag(&self) -> Option<TaskTag> {
        self.current.get().map(|t| self.meta.borrow()[t].tag)
    }

    pub fn tag_of(&self, t: TaskId) -> TaskTag {
        self.meta.borrow()[t].tag
    }

    pub fn set_tag(&self, t: TaskId, tag: TaskTag) {
        self.meta.borrow_mut()[t].tag = tag;
    }

    /// announce what the next library-side spawn is
    pub fn announce(&self, tag: TaskTag) {
        *self.pending_tag.borrow_mut() = Some(tag);
    }

    pub fn peek_announce(&self) -> Option<TaskTag> {
        *self.pending_tag.borrow()
    }

    pub fn clear_announce(&self) {
        *self.pending_tag.borrow_mut() = None;
    }

    pub fn add_cancel(&self, tag: TaskTag, before_poll: u32) {
        self.cancels.borrow_mut().push((tag, before_poll));
    }

    pub fn sleep_ticks(&self, ticks: u64) -> SleepFut {
        let mut c = self.clock.lock().unwrap();
        c.seq += 1;
        let key = (c.now + ticks, c.seq);
        c.timers.insert(key, None);
        SleepFut { clock: Arc::clone(&self.clock), key, done: false }
    }

    pub fn spawn_local(&self, tag: TaskTag, fut: LocalFut) -> TaskId {
        let id = {
            let mut m = self.meta.borrow_mut();
            m.push(TaskMeta { tag, polls: 0, end: None, spawned_by: self.current.get() });
            m.len() - 1
        };
        self.tasks.borrow_mut().insert(id, fut);
        self.ready.lock().unwrap().insert(id);
        self.emit(SimEvent::Spawned(id));
        id
    }

    pub fn force_ready(&self, t: TaskId) {
        self.ready.lock().unwrap().insert(t);
    }

    pub fn alive(&self, t: TaskId) -> bool {
        self.meta.borrow()[t].end.is_none()
    }

    pub fn alive_tasks(&self) -> Vec<TaskId> {
        self.meta
            .borrow()
            .iter()
            .enumerate()
            .filter(|(_, m)| m.end.is_none())
            .map(|(i, _)| i)
            .collect()
    }

    pub fn pending_timers(&self) -> usize {
        self.clock.lock().unwrap().timers.len()
    }

    pub fn next_deadline(&self) -> Option<u64> {
        self.clock.lock().unwrap().timers.keys().next().map(|k| k.0)
    }

    fn runnable(&self) -> Vec<TaskId> {
        let mut r = self.ready.lock().unwrap();
        let meta = self.meta.borrow();
        r.retain(|t| meta[*t].end.is_none());
        r.iter().copied().collect()
    }

    pub fn has_runnable(&self) -> bool {
        !self.runnable().is_empty()
    }

    /// Advance the clock to the earliest deadline (at most to `limit`); returns false if there is
    /// none.  All sleeps due at the new time are released together (their tasks become runnable;
    /// the order in which they run is a schedule choice).
    pub fn advance_time(&self, limit: u64) -> bool {
        let wakers: Vec<Waker> = {
            let mut c = self.clock.lock().unwrap();
            let Some(&(deadline, _)) = c.timers.keys().next() else { return false };
            if deadline > limit {
                return false;
            }
            if deadline > c.now {
                c.now = deadline;
            }
            let now = c.now;
            let due: Vec<(u64, u64)> = c.timers.keys().take_while(|k| k.0 <= now).copied().collect();
            due.into_iter().filter_map(|k| c.timers.remove(&k).flatten()).collect()
        };
        for w in wakers {
            w.wake();
        }
        true
    }

    /// Poll one runnable task chosen by the schedule.  Returns false if nothing is runnable.
    pub fn step(&self) -> bool {
        let run = self.runnable();
        if run.is_empty() {
            return false;
        }
        let n = run.len();
        let idx = if n == 1 {
            0
        } else {
            self.choices.set(self.choices.get() + 1);
            let pos = self.sched_pos.get();
            let sched = self.schedule.borrow();
            if pos < sched.len() {
                self.sched_pos.set(pos + 1);
                (sched[pos] as usize * n) >> 8
            } else {
                // round robin: first id greater than the last polled one
                let last = self.last_polled.get();
                run.iter().position(|t| *t > last).unwrap_or(0)
            }
        };
        let id = run[idx];
        self.last_polled.set(id);
        self.ready.lock().unwrap().remove(&id);
        self.steps.set(self.steps.get() + 1);

        let (tag, polls) = {
            let m = self.meta.borrow();
            (m[id].tag, m[id].polls)
        };
        // cancellation fault?
        let cancel = {
            let mut c = self.cancels.borrow_mut();
            if let Some(p) = c.iter().position(|(t, j)| *t == tag && *j == polls) {
                c.remove(p);
                true
            } else {
                false
            }
        };
        let Some(mut fut) = self.tasks.borrow_mut().remove(&id) else { return true };
        if cancel {
            self.finish(id, TaskEnd::Cancelled);
            let prev = self.current.replace(Some(id));
            let _ = catch_unwind(AssertUnwindSafe(move || drop(fut)));
            self.current.set(prev);
            return true;
        }
        self.meta.borrow_mut()[id].polls += 1;
        let w = waker(Arc::new(WakeEntry { id, ready: Arc::clone(&self.ready) }));
        let mut cx = Context::from_waker(&w);
        let prev = self.current.replace(Some(id));
        let res = catch_unwind(AssertUnwindSafe(|| fut.as_mut().poll(&mut cx)));
        match res {
            Ok(Poll::Pending) => {
                self.tasks.borrow_mut().insert(id, fut);
            }
            Ok(Poll::Ready(())) => {
                self.finish(id, TaskEnd::Done);
                let _ = catch_unwind(AssertUnwindSafe(move || drop(fut)));
            }
            Err(payload) => {
                let injected = payload.is::<InjectedPanic>();
                if !injected {
                    let msg = payload
                        .downcast_ref::<String>()
                        .cloned()
                        .or_else(|| payload.downcast_ref::<&str>().map(|s| s.to_string()))
                        .unwrap_or_else(|| "<non-string panic>".into());
                    let loc = LAST_PANIC_LOC.with(|c| c.borrow_mut().take()).unwrap_or_default();
                    self.foreign_panics.borrow_mut().push((id, format!("{loc}: {msg}")));
                }
                self.finish(id, TaskEnd::Panicked { injected });
                let _ = catch_unwind(AssertUnwindSafe(move || drop(fut)));
            }
        }
        self.current.set(prev);
        true
    }

    fn finish(&self, id: TaskId, end: TaskEnd) {
        self.meta.borrow_mut()[id].end = Some(end);
        self.emit(SimEvent::Ended(id, end));
    }

    fn emit(&self, e: SimEvent) {
        if let Some(f) = self.on_event.borrow().as_ref() {
            f(e);
        }
    }

    /// Cancel a task right now (drop its future).
    pub fn cancel_now(&self, id: TaskId) {
        let Some(fut) = self.tasks.borrow_mut().remove(&id) else { return };
        self.finish(id, TaskEnd::Cancelled);
        let prev = self.current.replace(Some(id));
        let _ = catch_unwind(AssertUnwindSafe(move || drop(fut)));
        self.current.set(prev);
    }

    /// Drop every remaining task (end of a case).
    pub fn drop_all(&self) {
        loop {
            let Some((id, fut)) = self.tasks.borrow_mut().pop_first() else { break };
            let prev = self.current.replace(Some(id));
            let _ = catch_unwind(AssertUnwindSafe(move || drop(fut)));
            self.current.set(prev);
        }
    }
}

/// The `Backend` the hannibal hook talks to.
pub struct SimBackend(pub Rc<Sim>, pub bool);

impl Backend for SimBackend {
    fn spawn(&self, fut: BoxFut) {
        let tag = self.0.pending_tag.borrow_mut().take().unwrap_or(TaskTag::Aux);
        self.0.spawn_local(tag, fut);
    }

    fn sleep(&self, d: Duration) -> BoxFut {
        // a fraction of a tick still takes a tick (a timer never fires early), and a sleep always gives the
        // executor a turn: a library loop that sleeps zero time must not spin inside one poll for ever
        let ticks = d.as_micros().div_ceil(1000) as u64;
        if ticks == 0 { Box::pin(YieldNow(false)) } else { Box::pin(self.0.sleep_ticks(ticks)) }
    }

    fn preemption_points(&self) -> bool {
        self.1
    }
}

/// yield once to the executor
pub struct YieldNow(pub bool);
impl Future for YieldNow {
    type Output = ();
    fn poll(mut self: Pin<&mut Self>, cx: &mut Context<'_>) -> Poll<()> {
        if self.0 {
            Poll::Ready(())
        } else {
            self.0 = true;
            cx.waker().wake_by_ref();
            Poll::Pending
        }
    }
}
pub fn yield_now() -> YieldNow {
    YieldNow(false)
}
