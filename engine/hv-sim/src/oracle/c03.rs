//! C03 Lifecycle callbacks follow the started / handle* / stopped protocol.
use super::Verdict;
use crate::{analysis::*, history::*, model::*, sim::{TaskEnd, TaskTag}};

#[derive(Clone, Copy, Debug, PartialEq)]
enum St {
    /// nothing seen yet
    Init,
    InStarted,
    Running,
    InHandler,
    InFinished,
    Finished,
    InStopped,
    Stopped,
    /// started returned Err
    StartFailed,
}

pub fn check(v: &View, vd: &mut Verdict) {
    // "on every graceful end (stop through any handle or from the context ...) stopped exactly once": an
    // accepted stop request does end the actor (the barrier rules without the awaiter part)
    super::c13::stop_starved(v, vd, "C03");
    // (not when a stream ended: that ends the actor too, without draining its mailbox)
    if !v.hist.iter().any(|e| matches!(e.kind, EvKind::StreamEnded { .. })) {
        super::c04::barrier(v, vd, "C03", false);
    }
    let n = v.actors.len();
    for a in 0..n {
        if v.rt[a].origin == Origin::Phantom || v.actors[a].spawned.is_none() {
            continue;
        }
        let stream = v.rt[a].stream;
        let mut st = St::Init;
        let mut inc: i64 = -1;
        let mut finished_calls = 0;
        let mut stopped_calls_this_inc = 0;
        let mut task_ended: Option<TaskEnd> = None;
        let mut bad = |sig: &str, detail: String| vd.fail(format!("C03/{sig}"), format!("actor {a}: {detail}"));
        for e in v.hist {
            match &e.kind {
                EvKind::Cb { actor, inc: i, cb, enter, .. } if *actor == a => {
                    if task_ended.is_some() {
                        bad("callback_after_end", format!("{cb:?} at {} after the task ended", e.stamp));
                        continue;
                    }
                    match (cb, enter) {
                        (Cb::Started, true) => {
                            if !(st == St::Init || st == St::Stopped) {
                                bad("started_out_of_place", format!("started entered at {} in state {st:?}", e.stamp));
                            }
                            if *i as i64 != inc + 1 {
                                bad("started_incarnation", format!("started for incarnation {i} after incarnation {inc}"));
                            }
                            inc = *i as i64;
                            stopped_calls_this_inc = 0;
                            st = St::InStarted;
                        }
                        (Cb::Started, false) => {
                            if st != St::InStarted {
                                bad("started_exit", format!("started exit at {} in state {st:?}", e.stamp));
                            }
                            st = if is_start_err_next(v, e.stamp, a) { St::StartFailed } else { St::Running };
                        }
                        (Cb::Finished, true) => {
                            finished_calls += 1;
                            if st != St::Running {
                                bad("finished_out_of_place", format!("finished entered at {} in state {st:?}", e.stamp));
                            }
                            if !stream {
                                bad("finished_on_plain", format!("finished called on a plain actor at {}", e.stamp));
                            }
                            st = St::InFinished;
                        }
                        (Cb::Finished, false) => {
                            if st != St::InFinished {
                                bad("finished_exit", format!("finished exit at {} in state {st:?}", e.stamp));
                            }
                            st = St::Finished;
                        }
                        (Cb::Stopped, true) => {
                            stopped_calls_this_inc += 1;
                            let ok = if stream { st == St::Finished } else { st == St::Running || (st == St::InHandler && v.rt[a].timeout.is_some()) };
                            if !ok {
                                bad(
                                    if stream && st == St::Running { "stopped_without_finished" } else { "stopped_out_of_place" },
                                    format!("stopped entered at {} in state {st:?} (stream-attached={stream})", e.stamp),
                                );
                            }
                            if stopped_calls_this_inc > 1 {
                                bad("stopped_twice", format!("stopped called {stopped_calls_this_inc} times in incarnation {inc}"));
                            }
                            st = St::InStopped;
                        }
                        (Cb::Stopped, false) => {
                            if st != St::InStopped {
                                bad("stopped_exit", format!("stopped exit at {} in state {st:?}", e.stamp));
                            }
                            st = St::Stopped;
                        }
                    }
                }
                EvKind::HEnter { actor, inc: i, msg, .. } if *actor == a => {
                    if task_ended.is_some() {
                        bad("handler_after_end", format!("{msg:?} handled at {} after the task ended", e.stamp));
                        continue;
                    }
                    // with a handler timeout configured an invocation may have been abandoned (it never exits)
                    if st == St::InHandler && v.rt[a].timeout.is_some() {
                        st = St::Running;
                    }
                    match st {
                        St::Running => {}
                        St::Init | St::InStarted => bad("handler_before_started", format!("{msg:?} handled at {} before started completed (state {st:?})", e.stamp)),
                        St::StartFailed => bad("handler_after_start_error", format!("{msg:?} handled at {} although started returned an error", e.stamp)),
                        _ => bad("handler_after_stopped", format!("{msg:?} handled at {} in state {st:?}", e.stamp)),
                    }
                    if *i as i64 != inc {
                        bad("handler_incarnation", format!("{msg:?} handled with incarnation {i}, current is {inc}"));
                    }
                    if st == St::Running {
                        st = St::InHandler;
                    }
                }
                EvKind::HExit { actor, .. } if *actor == a => {
                    if st == St::InHandler {
                        st = St::Running;
                    }
                }
                EvKind::TaskEnd { tag: TaskTag::Actor(x), end, .. } if *x == a => {
                    task_ended = Some(*end);
                    if *end == TaskEnd::Done {
                        match st {
                            St::StartFailed => {}
                            St::Stopped => {
                                if stream && finished_calls != 1 {
                                    bad("finished_count", format!("stream-attached actor ended gracefully with {finished_calls} finished calls"));
                                }
                            }
                            // fail_on_timeout ends in Running/InHandler: not generated in this family
                            other => {
                                if v.rt[a].timeout.is_none() {
                                    bad("end_without_stopped", format!("task ended (Done) in state {other:?}: stopped was not called / not completed"));
                                }
                            }
                        }
                    }
                }
                _ => {}
            }
        }
        // started returned Err => terminates as failed
        if st == St::StartFailed {
            for o in v.client_ops().filter(|o| o.actor == Some(a) && o.end.is_some()) {
                match (&o.what, &o.res) {
                    (OpWhat::AwaitClone, Some(r)) if r.is_ok() => vd.fail("C03/start_error_not_failed", format!("actor {a}: started failed but awaiting the address returned Ok (client {} op {})", o.client, o.op)),
                    (OpWhat::Join, Some(OpRes::Joined(Some(_)))) => vd.fail("C03/start_error_not_failed", format!("actor {a}: started failed but join returned the actor (client {} op {})", o.client, o.op)),
                    _ => {}
                }
            }
        }
    }
    // the end of the attached stream is a graceful end: finished and stopped follow (not only when the
    // harness finally drops every handle)
    {
        let mut sid = 0;
        for (a, rt) in v.rt.iter().enumerate() {
            if !rt.stream || v.actors[a].spawned.is_none() {
                continue;
            }
            let ended = v.hist.iter().find_map(|e| match &e.kind {
                EvKind::StreamEnded { stream } if *stream == sid => Some(e.stamp),
                _ => None,
            });
            sid += 1;
            if let Some(e) = ended {
                let stopped = v.cbs.iter().find(|c| c.actor == a && c.cb == Cb::Stopped).map(|c| c.enter);
                if e < v.phase(Phase::Settle) && stopped.is_none_or(|s| s > v.phase(Phase::Teardown)) && v.actors[a].task_end.is_none_or(|(s, _)| s > v.phase(Phase::Teardown)) {
                    vd.fail("C03/no_stopped_after_stream_end", format!("actor {a}: its stream ended at {e} (run phase) but finished/stopped were not called before the harness dropped every handle at {}", v.phase(Phase::Teardown)));
                }
            }
        }
    }
    // classes / non-triviality
    let restart = v.cbs.iter().any(|c| c.cb == Cb::Started && c.inc > 0);
    let queued_at_end = v.client_ops().any(|o| {
        o.what == OpWhat::Send && o.ok() && o.actor.is_some_and(|a| v.dead_from(a) != u64::MAX && v.dead_from(a) < v.phase(Phase::Teardown)) && o.msg.is_some_and(|m| v.inv_of_msg(m).is_empty())
    }) || v.hist.iter().any(|e| match &e.kind {
        EvKind::TickCreated { actor, timer, n } => {
            v.dead_from(*actor) != u64::MAX && e.stamp < v.dead_from(*actor) && !v.invs.iter().any(|i| i.msg == MsgRef::Tick { timer: *timer, n: *n })
        }
        _ => false,
    });
    if restart {
        vd.class("restart_processed");
    }
    if queued_at_end {
        vd.class("payload_queued_at_termination");
    }
    if v.rt.iter().any(|r| r.stream) {
        vd.class("stream_attached");
    }
    if v.hist.iter().any(|e| matches!(&e.kind, EvKind::Note(s) if s.starts_with("started-err"))) {
        vd.class("start_error");
    }
    for a in 0..n {
        if let Some((s, _)) = v.actors[a].task_end {
            if s < v.phase(Phase::Teardown) {
                vd.class("ended_before_teardown");
            }
        }
    }
    vd.nontrivial = restart || queued_at_end;
}

/// the `started-err` note directly follows the Started-exit event of the failing incarnation
fn is_start_err_next(v: &View, exit_stamp: u64, a: usize) -> bool {
    v.hist
        .iter()
        .find(|e| e.stamp == exit_stamp + 1)
        .is_some_and(|e| matches!(&e.kind, EvKind::Note(s) if s.starts_with(&format!("started-err actor={a} "))))
}
