//! C10 Timers respect their period/delay, die with the actor and never prolong it.
use std::collections::BTreeMap;

use super::Verdict;
use crate::{analysis::*, history::*, model::*, sim::TaskTag};

struct T {
    actor: ActorId,
    kind: TimerKind,
    ticks: u64,
    reg_time: u64,
    reg_stamp: u64,
    created: Vec<(u64, u64)>, // (stamp, time)
    ran: Vec<(u64, u64)>,
}

pub fn check(v: &View, vd: &mut Verdict) {
    let mut timers: BTreeMap<usize, T> = BTreeMap::new();
    for e in v.hist {
        match &e.kind {
            EvKind::TimerReg { actor, timer, kind, ticks, .. } => {
                timers.insert(*timer, T { actor: *actor, kind: *kind, ticks: *ticks as u64, reg_time: e.time, reg_stamp: e.stamp, created: vec![], ran: vec![] });
            }
            EvKind::TickCreated { timer, .. } => {
                if let Some(t) = timers.get_mut(timer) {
                    t.created.push((e.stamp, e.time));
                }
            }
            EvKind::DelayedRan { timer, .. } => {
                if let Some(t) = timers.get_mut(timer) {
                    t.ran.push((e.stamp, e.time));
                }
            }
            _ => {}
        }
    }
    let teardown = v.phase(Phase::Teardown);
    let teardown_time = v.hist.iter().find(|e| e.stamp == teardown).map(|e| e.time).unwrap_or(0);
    let mut multi_fire = false;
    let mut pending_at_end = false;
    for (id, t) in &timers {
        let a = t.actor;
        let dead = v.dead_from(a);
        let handled: Vec<&InvRec> = v.invs.iter().filter(|i| matches!(&i.msg, MsgRef::Tick { timer, .. } if timer == id)).collect();
        match t.kind {
            TimerKind::Interval | TimerKind::IntervalWith => {
                // at least one period between consecutive deliveries
                let mut prev = t.reg_time;
                for (k, (_, time)) in t.created.iter().enumerate() {
                    if *time < prev + t.ticks {
                        vd.fail(
                            format!("C10/period_too_short/{:?}", t.kind),
                            format!("actor {a}: timer {id} ({:?}, period {}) registered at t={}: tick {k} created at t={time}, previous at t={prev}", t.kind, t.ticks, t.reg_time),
                        );
                        break;
                    }
                    prev = *time;
                }
                if handled.len() >= 2 {
                    multi_fire = true;
                }
                // interval_with waits for its send: on a rendezvous mailbox (bounded 0) the send of tick k
                // completes when the actor takes it out, and tick k+1 comes one period after that
                if t.kind == TimerKind::IntervalWith && v.rt[a].mailbox == Mailbox::Bounded(0) {
                    for k in 1..t.created.len() {
                        let prev_taken = v.invs.iter().find(|i| i.msg == MsgRef::Tick { timer: *id, n: (k - 1) as u32 }).map(|i| i.enter_time);
                        if let Some(pt) = prev_taken {
                            if t.created[k].1 < pt + t.ticks {
                                vd.fail(
                                    "C10/period_too_short_after_blocked_send",
                                    format!("actor {a} (bounded 0): interval_with timer {id} (period {}): tick {} was taken out at t={pt}, tick {k} was produced at t={}", t.ticks, k - 1, t.created[k].1),
                                );
                                break;
                            }
                        }
                    }
                }
                went_silent(v, vd, *id, t);
                // exactly k deliveries after k periods on an otherwise idle actor
                let idle = v.invs.iter().filter(|i| i.actor == a).all(|i| matches!(i.msg, MsgRef::Tick { .. }) && i.enter_time == i.exit_time && i.exit.is_some())
                    && v.alive_until(a) >= teardown
                    && v.cbs.iter().filter(|c| c.actor == a && c.cb == Cb::Started).count() == 1;
                if idle && teardown != u64::MAX {
                    vd.class("idle_actor_exact_count");
                    let expect = (teardown_time.saturating_sub(t.reg_time)) / t.ticks.max(1);
                    let got = handled.iter().filter(|i| i.enter < teardown).count() as u64;
                    if got != expect {
                        vd.fail(
                            format!("C10/idle_count/{:?}", t.kind),
                            format!("actor {a}: idle actor, timer {id} ({:?}, period {}) registered at t={}: {got} deliveries by t={teardown_time}, expected {expect}", t.kind, t.ticks, t.reg_time),
                        );
                    }
                }
            }
            TimerKind::DelayedSend => {
                if t.created.len() > 1 {
                    vd.fail("C10/delayed_send_repeated", format!("actor {a}: delayed_send timer {id} produced {} messages", t.created.len()));
                }
                if let Some((_, time)) = t.created.first() {
                    if *time < t.reg_time + t.ticks {
                        vd.fail("C10/delayed_send_early", format!("actor {a}: delayed_send timer {id} (delay {}) registered at t={} fired at t={time}", t.ticks, t.reg_time));
                    }
                }
                // fires exactly once if the actor (same incarnation, see C07) lives long enough
                let single_inc = v.cbs.iter().filter(|c| c.actor == a && c.cb == Cb::Started).count() == 1;
                if single_inc && v.alive_until(a) >= teardown && teardown_time >= t.reg_time + t.ticks && teardown != u64::MAX {
                    if t.created.len() != 1 || t.created[0].1 != t.reg_time + t.ticks {
                        vd.fail("C10/delayed_send_missing", format!("actor {a}: delayed_send timer {id} (delay {}) registered at t={}: created {:?}, the actor was alive until t={teardown_time}", t.ticks, t.reg_time, t.created));
                    }
                }
            }
            TimerKind::DelayedExec => {
                if t.ran.len() > 1 {
                    vd.fail("C10/delayed_exec_repeated", format!("actor {a}: delayed_exec timer {id} ran {} times", t.ran.len()));
                }
                if let Some((_, time)) = t.ran.first() {
                    if *time < t.reg_time + t.ticks {
                        vd.fail("C10/delayed_exec_early", format!("actor {a}: delayed_exec timer {id} (delay {}) registered at t={} ran at t={time}", t.ticks, t.reg_time));
                    }
                }
                let single_inc = v.cbs.iter().filter(|c| c.actor == a && c.cb == Cb::Started).count() == 1;
                if single_inc && v.alive_until(a) >= teardown && teardown_time >= t.reg_time + t.ticks && teardown != u64::MAX {
                    if t.ran.len() != 1 || t.ran[0].1 != t.reg_time + t.ticks {
                        vd.fail("C10/delayed_exec_missing", format!("actor {a}: delayed_exec timer {id} (delay {}) registered at t={}: ran {:?}, the actor was alive until t={teardown_time}", t.ticks, t.reg_time, t.ran));
                    }
                }
            }
        }
        // never fires into a terminated actor
        for i in &handled {
            if i.enter > dead {
                vd.fail("C10/tick_after_end", format!("actor {a}: tick of timer {id} handled at {} after the actor ended at {dead}", i.enter));
            }
        }
        for (s, _) in &t.ran {
            if *s > dead && t.reg_stamp < dead {
                vd.fail("C10/delayed_exec_after_end", format!("actor {a}: delayed_exec timer {id} ran at {s} after the actor ended at {dead}"));
            }
        }
        if dead != u64::MAX {
            let still_pending = match t.kind {
                TimerKind::Interval | TimerKind::IntervalWith => true,
                TimerKind::DelayedSend => t.created.iter().all(|(s, _)| *s > dead),
                TimerKind::DelayedExec => t.ran.iter().all(|(s, _)| *s > dead),
            };
            if still_pending && t.reg_stamp < dead {
                pending_at_end = true;
            }
        }
    }
    // a tick produced after the last strong handle was dropped can never be submitted (the timer only
    // holds a weak sender), let alone handled
    {
        let n = v.actors.len();
        let mut strong = vec![0i64; n];
        let mut zero_at: Vec<Option<u64>> = vec![None; n];
        for e in v.hist {
            match &e.kind {
                EvKind::HandleNew { actor, kind, .. } if kind.strong() => {
                    strong[*actor] += 1;
                    zero_at[*actor] = None;
                }
                EvKind::HandleDrop { actor, kind, .. } if kind.strong() => {
                    strong[*actor] -= 1;
                    if strong[*actor] == 0 {
                        zero_at[*actor] = Some(e.stamp);
                    }
                }
                _ => {}
            }
        }
        for (id, t) in &timers {
            let Some(z) = zero_at[t.actor] else { continue };
            if v.rt[t.actor].origin != Origin::Setup {
                continue;
            }
            // a timer whose waiting send is blocked on a full bounded mailbox holds an upgraded sender meanwhile
            let waiting_timer = matches!(v.rt[t.actor].mailbox, Mailbox::Bounded(_))
                && timers.values().any(|o| o.actor == t.actor && matches!(o.kind, TimerKind::IntervalWith | TimerKind::DelayedSend));
            if waiting_timer {
                continue;
            }
            // in-flight client operations may still hold temporaries: only ticks produced after they all ended
            let quiet = v.quiet_after(t.actor, z);
            for (k, (s, time)) in t.created.iter().enumerate() {
                if *s > quiet && quiet != u64::MAX {
                    if let Some(i) = v.invs.iter().find(|i| i.msg == MsgRef::Tick { timer: *id, n: k as u32 }) {
                        vd.fail(
                            format!("C10/tick_after_last_drop/{:?}", t.kind),
                            format!("actor {}: the last strong handle was dropped at {z}; timer {id} ({:?}) produced tick {k} at {s} (t={time}) and it was handled at {}: the timer kept the actor reachable", t.actor, t.kind, i.enter),
                        );
                    }
                }
            }
        }
    }
    // timers never keep the actor alive; none is leaked
    let saturated = |a: ActorId| {
        let sending = matches!(v.rt[a].mailbox, Mailbox::Bounded(_))
            && timers.values().any(|o| o.actor == a && matches!(o.kind, TimerKind::IntervalWith | TimerKind::DelayedSend));
        let produced: usize = timers.values().filter(|o| o.actor == a).map(|o| o.created.len()).sum();
        let taken = v.invs.iter().filter(|i| i.actor == a && matches!(i.msg, MsgRef::Tick { .. })).count();
        sending && v.flags.not_quiescent && produced > taken && v.actors[a].task_end.is_none()
    };
    for (i, t) in v.tasks.iter().enumerate() {
        if t.end.is_none() {
            match t.tag {
                TaskTag::Timer { actor, .. } if saturated(actor) => {}
                TaskTag::Timer { actor, timer } => vd.fail(
                    format!("C10/timer_task_leaked/{:?}", timers.get(&timer).map(|t| t.kind)),
                    format!("timer task {i} (timer {timer} of actor {actor}) is still alive at the end (actor ended at {:?})", v.actors.get(actor).and_then(|a| a.task_end)),
                ),
                TaskTag::Actor(a) => {
                    // a timer whose send waits on a full bounded mailbox holds an upgraded sender meanwhile (an
                    // operation in flight, as in the rule above): an actor that its own timers saturate has such
                    // a send pending at any moment, the run ends on its budget with ticks produced but not yet
                    // taken out - "every strong handle was dropped" is not true at that point: no verdict
                    if saturated(a) {
                        vd.class("saturated_by_own_timers");
                        continue;
                    }
                    if timers.values().any(|t| t.actor == a) {
                        vd.fail("C10/actor_kept_alive", format!("actor {a} with timers is still alive after every strong handle was dropped"));
                    }
                }
                _ => {}
            }
        }
    }
    timer_died_early(v, vd, "C10");
    delayed_body_outlives_actor(v, vd, "C10");
    if multi_fire {
        vd.class("timer_fired_twice");
    }
    if pending_at_end {
        vd.class("terminated_with_timer_pending");
    }
    vd.nontrivial = multi_fire && pending_at_end;
}

/// Timers die *with* the actor (or with the incarnation that registered them), not before: a timer
/// task may only end once a termination cause exists for its actor, once a restart request has been
/// issued to a restartable actor, or - for the one-shot kinds - after it has fired.
pub fn timer_died_early(v: &View, vd: &mut Verdict, prop: &str) {
    for e in v.hist {
        let EvKind::TimerReg { actor, timer, kind, .. } = &e.kind else { continue };
        let (a, id) = (*actor, *timer);
        let Some(end) = v.hist.iter().find(|x| x.stamp > e.stamp && matches!(&x.kind, EvKind::TaskEnd { tag: TaskTag::Timer { actor: ta, timer: tt }, .. } if *ta == a && *tt == id)) else { continue };
        let limit = v.timer_valid_until(a, e.stamp);
        if end.stamp >= limit {
            continue;
        }
        let fired = v.hist.iter().any(|x| {
            x.stamp < end.stamp
                && match &x.kind {
                    EvKind::TickCreated { timer: t, .. } | EvKind::DelayedRan { timer: t, .. } => *t == id,
                    _ => false,
                }
        });
        let repeating = matches!(kind, TimerKind::Interval | TimerKind::IntervalWith);
        if repeating || !fired {
            vd.fail(
                format!("{prop}/timer_died_early/{kind:?}"),
                format!("actor {a} ({:?}): the task of timer {id} ({kind:?}) registered at {} ended at {} ({:?}) although nothing had asked the actor to terminate or restart before {limit}", v.rt[a].strategy, e.stamp, end.stamp, end.kind),
            );
        }
    }
}

fn time_of(v: &View, stamp: u64) -> u64 {
    v.hist.iter().find(|e| e.stamp >= stamp).map(|e| e.time).unwrap_or_else(|| v.hist.last().map(|e| e.time).unwrap_or(0))
}

/// A live repeating timer never lets its actor sit idle for more than one period: an idle actor has
/// an empty mailbox, the next tick is produced at most one period later and is taken at once.  Looks at
/// the time between the registration and the first possible end of the actor (or the next restart
/// request); busy = inside a handler (until its exit, or until the configured timeout abandons it) or a
/// lifecycle callback.
fn went_silent(v: &View, vd: &mut Verdict, id: usize, t: &T) {
    let a = t.actor;
    let limit = v.timer_valid_until(a, t.reg_stamp).min(v.phase(Phase::Teardown));
    if limit == u64::MAX || limit <= t.reg_stamp {
        return;
    }
    let limit_time = time_of(v, limit);
    let timeout = v.rt[a].timeout.map(|(x, _)| x as u64);
    let mut busy: Vec<(u64, u64)> = vec![];
    for i in v.invs.iter().filter(|i| i.actor == a) {
        let end = match (i.exit, timeout) {
            (Some(_), _) => i.exit_time,
            (None, Some(x)) => i.enter_time + x,
            (None, None) => u64::MAX,
        };
        busy.push((i.enter_time, end));
    }
    for c in v.cbs.iter().filter(|c| c.actor == a) {
        busy.push((c.enter_time, c.exit.map(|s| time_of(v, s)).unwrap_or(u64::MAX)));
    }
    busy.sort();
    let mut idle_from = t.reg_time;
    for (b0, b1) in busy {
        if b1 < idle_from {
            continue;
        }
        if b0 > idle_from {
            let g1 = b0.min(limit_time);
            if g1 > idle_from + t.ticks {
                vd.fail(
                    format!("C10/timer_went_silent/{:?}", t.kind),
                    format!("actor {a}: timer {id} ({:?}, period {}) registered at t={}: the actor was idle from t={idle_from} to t={g1} without a tick being delivered (nothing could end or restart it before t={limit_time})", t.kind, t.ticks, t.reg_time),
                );
                return;
            }
        }
        idle_from = idle_from.max(b1);
        if idle_from >= limit_time {
            return;
        }
    }
    if limit_time > idle_from.saturating_add(t.ticks) {
        vd.fail(
            format!("C10/timer_went_silent/{:?}", t.kind),
            format!("actor {a}: timer {id} ({:?}, period {}) registered at t={}: the actor was idle from t={idle_from} to t={limit_time} without a tick being delivered", t.kind, t.ticks, t.reg_time),
        );
    }
}

/// The body of a `delayed_exec` task is part of the actor's timers: once the actor has ended it
/// produces no further effects (it is aborted at its next await point).
pub fn delayed_body_outlives_actor(v: &View, vd: &mut Verdict, prop: &str) {
    for e in v.hist {
        let EvKind::Note(n) = &e.kind else { continue };
        let Some(rest) = n.strip_prefix("delayed-exec-done actor=") else { continue };
        let mut it = rest.split(" timer=");
        let (Some(a), Some(t)) = (it.next().and_then(|x| x.parse::<usize>().ok()), it.next().and_then(|x| x.parse::<usize>().ok())) else { continue };
        let dead = v.dead_from(a);
        // the body was still running (it sleeps) when the actor task ended, and completed afterwards
        let ran = v.hist.iter().find(|x| matches!(&x.kind, EvKind::DelayedRan { timer, .. } if *timer == t));
        if let Some(r) = ran {
            let end_time = v.hist.iter().find(|x| x.stamp >= dead).map(|x| x.time).unwrap_or(u64::MAX);
            if r.stamp < dead && e.stamp > dead && e.time > end_time {
                vd.fail(
                    format!("{prop}/delayed_exec_body_outlived_actor"),
                    format!("actor {a} ended at {dead} (t={end_time}); the body of delayed_exec timer {t}, started at {}, ran on and completed at {} (t={})", r.stamp, e.stamp, e.time),
                );
            }
        }
    }
}
