//! C17 OwningAddr hands back the actor's final state exactly once.
use super::Verdict;
use crate::{analysis::*, history::*, model::*};

pub fn check(v: &View, vd: &mut Verdict) {
    let mut nt = false;
    for a in 0..v.actors.len() {
        if v.actors[a].spawned.is_none() || !v.rt[a].owning {
            continue;
        }
        let av = &v.actors[a];
        let dead = v.dead_from(a);
        let mut joins: Vec<&OpRec> = v
            .client_ops()
            .filter(|o| o.actor == Some(a) && matches!(o.what, OpWhat::Join | OpWhat::JoinStash | OpWhat::Consume | OpWhat::ConsumeSync))
            .collect();
        joins.sort_by_key(|o| o.begin);
        let mut handed_out = false;
        for (k, o) in joins.iter().enumerate() {
            if o.what == OpWhat::JoinStash {
                // a join future that was polled once and is kept alive owns the task handle from now on
                if matches!(o.res, Some(OpRes::Bool(false))) {
                    handed_out = true;
                    vd.class("stalled_join_future");
                }
                continue;
            }
            let Some(end) = o.end else {
                if dead < v.phase(Phase::Teardown) {
                    vd.fail(format!("C17/join_hangs/{:?}", o.what), format!("actor {a}: {:?} (client {} op {}) never resolved although the actor ended at {dead}", o.what, o.client, o.op));
                }
                continue;
            };
            if k > 0 {
                vd.class("repeated_join");
                nt = true;
            }
            if v.client_ops().any(|p| p.actor == Some(a) && matches!(p.what, OpWhat::Send | OpWhat::Call) && p.begin < end && p.end_or_max() > o.begin && p.client != o.client) {
                vd.class("join_races_submission");
                nt = true;
            }
            if matches!(o.what, OpWhat::Consume | OpWhat::ConsumeSync) && o.begin == v.alive_until(a) {
                vd.class("consume_is_first_cause");
            }
            match &o.res {
                Some(OpRes::Joined(Some(fv))) => {
                    if handed_out {
                        vd.fail("C17/handed_out_twice", format!("actor {a}: {:?} (client {} op {}) returned the actor value although an earlier join already had", o.what, o.client, o.op));
                    }
                    handed_out = true;
                    if end < dead {
                        vd.fail("C17/join_before_end", format!("actor {a}: {:?} returned the value at {end}, before the actor task ended at {dead}", o.what));
                    }
                    if let Some(x) = av.stopped_exit {
                        if end < x {
                            vd.fail("C17/join_before_stopped", format!("actor {a}: {:?} returned the value at {end}, before stopped() finished at {x}", o.what));
                        }
                    }
                    if !av.graceful {
                        vd.fail("C17/value_from_failed_actor", format!("actor {a}: termination was not graceful ({:?}) but {:?} returned the value", av.task_end, o.what));
                    }
                    if fv.actor != a {
                        vd.fail("C17/wrong_actor", format!("actor {a}: join returned the value of actor {}", fv.actor));
                    }
                    if fv.stopped_calls != 1 && v.cbs.iter().filter(|c| c.actor == a && c.cb == Cb::Started).count() == 1 {
                        vd.fail("C17/state_before_stopped", format!("actor {a}: the joined value has seen {} stopped() calls", fv.stopped_calls));
                    }
                }
                Some(OpRes::Joined(None)) => {
                    if end < dead && !handed_out {
                        vd.fail("C17/none_before_end", format!("actor {a}: {:?} returned None at {end} while the actor was still running (ended {dead:?})", o.what));
                    }
                    // the first join of a gracefully terminated actor must hand out the value
                    if !handed_out && av.graceful && k == 0 {
                        vd.fail(format!("C17/value_lost/{:?}", o.what), format!("actor {a}: terminated gracefully but the first {:?} returned None", o.what));
                    }
                }
                Some(OpRes::Err(e)) => {
                    // consume: the documented stop error, only if somebody else had already asked for termination
                    if o.begin < v.alive_until(a) {
                        vd.fail(format!("C17/consume_failed/{:?}", o.what), format!("actor {a}: {:?} began at {} on a live actor and returned Err({e})", o.what, o.begin));
                    } else if o.begin == v.alive_until(a) && av.graceful && !handed_out {
                        // this very operation is what ended the actor, the actor ended gracefully and nobody
                        // has taken the value: "consume stops the actor and returns it"
                        vd.fail(
                            format!("C17/consume_failed_after_own_stop/{:?}", o.what),
                            format!("actor {a}: {:?} began at {} on a live actor, was the first cause of its (graceful) termination and returned Err({e})", o.what, o.begin),
                        );
                    }
                }
                _ => {}
            }
        }
        // the stopped callback is never cut short (a handler timeout is about handlers)
        if let Some(c) = v.cbs.iter().rev().find(|c| c.actor == a && c.cb == Cb::Stopped) {
            let faulty = v.case.faults.iter().any(|f| matches!(f, Fault::StopPanic { .. } | Fault::FinishPanic { .. } | Fault::CancelActor { .. }));
            if c.exit.is_none() && matches!(av.task_end, Some((_, crate::sim::TaskEnd::Done))) && !faulty {
                vd.fail("C17/stopped_cut_short", format!("actor {a}: stopped() was entered at {} but never completed, yet the task ended normally (join handed out {:?})", c.enter, joins.first().and_then(|j| j.res.clone())));
            }
        }
        if !av.graceful && av.task_end.is_some() && !joins.is_empty() {
            vd.class("join_of_failed_actor");
        }
        // detach does not affect the actor; a live OwningAddr keeps it alive: shared with C05 rule (a)
        for o in v.client_ops().filter(|o| o.actor == Some(a) && o.what == OpWhat::Detach) {
            vd.class("detached");
            if let Some((s, _)) = av.task_end {
                if s < v.alive_until(a) && s > o.begin {
                    vd.fail("C17/detach_ended_actor", format!("actor {a}: detached at {} and ended at {s} although nothing asked it to", o.begin));
                }
            }
        }
        // it started to wind down (stopped() entered, or the task ended) before anything could have caused that
        let wind_down = v.cbs.iter().filter(|c| c.actor == a && c.cb == Cb::Stopped).map(|c| c.enter).min().or(av.task_end.map(|(s, _)| s));
        if let Some(s) = wind_down {
            if s < v.alive_until(a) && av.task_end.is_some_and(|(e, _)| e >= v.alive_until(a) || s < e) && v.cbs.iter().filter(|c| c.actor == a && c.cb == Cb::Started).count() == 1 {
                vd.fail("C17/ended_while_owned", format!("actor {a}: began to stop at {s} although strong handles existed and nothing had asked it to stop (first possible cause at {})", v.alive_until(a)));
            }
        }
    }
    super::c01::structural(v, vd, "C17");
    vd.nontrivial = nt;
}
