//! C05 Strong handles keep an actor alive, weak never do; last drop drains, then stops.
use std::collections::BTreeMap;

use super::Verdict;
use crate::{analysis::*, history::*, model::*, sim::TaskTag};

pub fn check(v: &View, vd: &mut Verdict) {
    let n = v.actors.len();
    let teardown = v.phase(Phase::Teardown);
    // known strong handle count per actor over time; stamp at which it last became 0
    let mut strong: Vec<i64> = vec![0; n];
    let mut zero_since: Vec<Option<u64>> = vec![None; n];
    let mut zero_events: Vec<Vec<u64>> = vec![vec![]; n];
    // timeline of counts for "count at stamp s"
    let mut timeline: Vec<BTreeMap<u64, i64>> = vec![BTreeMap::new(); n];
    for e in v.hist {
        match &e.kind {
            EvKind::HandleNew { actor, kind, .. } if kind.strong() => {
                strong[*actor] += 1;
                zero_since[*actor] = None;
                timeline[*actor].insert(e.stamp, strong[*actor]);
            }
            EvKind::HandleDrop { actor, kind, .. } if kind.strong() => {
                strong[*actor] -= 1;
                timeline[*actor].insert(e.stamp, strong[*actor]);
                if strong[*actor] == 0 {
                    zero_since[*actor] = Some(e.stamp);
                    zero_events[*actor].push(e.stamp);
                }
            }
            _ => {}
        }
    }
    let count_at = |a: usize, s: u64| timeline[a].range(..=s).next_back().map(|(_, c)| *c).unwrap_or(0);
    // the service registry is a strong holder too: from a successful set-up registration until the
    // first operation that may change the entry (or the harness unregistering everything at teardown)
    let registry_until = |a: usize| -> u64 {
        let Some(slot) = v.rt[a].slot else { return 0 };
        if !matches!(v.case.actors[slot].spawn, SpawnSpec::Register { .. }) {
            return 0;
        }
        if !v.hist.iter().any(|e| matches!(&e.kind, EvKind::Note(s) if s == &format!("setup-register actor={slot} ok=true"))) {
            return 0;
        }
        let kind = v.rt[a].kind;
        v.ops
            .iter()
            .filter(|o| matches!(o.what, OpWhat::Reg(RegOp::Register | RegOp::Replace | RegOp::Unregister, k) if k == kind))
            // a refused register() leaves the registry as it was
            .filter(|o| !matches!(o.res, Some(OpRes::Reg(RegRes::RegisterErr { .. }))))
            .map(|o| o.begin)
            .min()
            .unwrap_or(u64::MAX)
            .min(teardown)
    };
    let mut nt = false;
    for a in 0..n {
        let av = &v.actors[a];
        if av.spawned.is_none() || v.rt[a].origin == Origin::Phantom {
            continue;
        }
        let hidden_holder = v.rt[a].origin != Origin::Setup || v.case.actors.iter().any(|s| s.peer == Some(a)) || registry_until(a) > 0;
        let stop_requested = !av.stop_reqs.is_empty() || !av.ctx_stops.is_empty()
            || v.hist.iter().any(|e| matches!(&e.kind, EvKind::CtxOp { actor, op: CtxOpKind::Stop, .. } if *actor == a));
        // (a) never stops while a strong handle exists (and nobody asked it to)
        let stopped_enter = v.cbs.iter().filter(|c| c.actor == a && c.cb == Cb::Stopped && !v.cbs.iter().any(|s| s.actor == a && s.cb == Cb::Started && s.enter > c.enter)).map(|c| c.enter).next();
        let end_stamp = stopped_enter.or(av.task_end.map(|(s, _)| s));
        if let Some(s) = end_stamp {
            if !stop_requested && !v.rt[a].stream && count_at(a, s) > 0 && zero_events[a].iter().all(|z| *z > s) {
                vd.fail(
                    "C05/stopped_while_strong",
                    format!("actor {a}: ended at {s} although {} strong handles existed and nobody had requested a stop", count_at(a, s)),
                );
            }
            if !stop_requested && s < registry_until(a) {
                vd.fail(
                    "C05/stopped_while_registered",
                    format!("actor {a}: ended at {s} although it was registered as a service (the registry holds a strong handle until {}) and nobody had requested a stop", registry_until(a)),
                );
            }
            if registry_until(a) > 0 && zero_events[a].iter().any(|z| *z < s.min(registry_until(a))) {
                vd.class("held_only_by_registry");
            }
        }
        // (b) last strong drop: accepted messages are handled first, then a graceful end
        let last_zero = zero_since[a];
        if let Some(z) = last_zero {
            // a stream-attached actor also ends with its stream (without draining its mailbox): only the
            // "it does end" rules apply to it, and only if its stream did not end
            let stream = v.rt[a].stream;
            let stream_over = stream && v.hist.iter().any(|e| matches!(e.kind, EvKind::StreamEnded { .. }));
            if !stop_requested && !hidden_holder && !stream_over {
                if z < teardown {
                    vd.class("last_drop_before_teardown");
                }
                if stream {
                    vd.class("stream_actor_last_drop");
                    // the closed mailbox is "ready" in every round of the fair select from the last drop on
                    // (once no in-flight operation holds a temporary): 48 items in a row mean it was not looked at
                    // (an operation in flight holds a temporary strong handle, and one that begins meanwhile - a
                    // weak call that still upgrades - prolongs that: take the closure)
                    let from = v.quiet_after(a, z);
                    // (the broker holds upgraded senders while it fans a publication out, a timer whose waiting
                    // send is blocked holds one too: then the mailbox is not closed yet)
                    let waiting_timer = matches!(v.rt[a].mailbox, Mailbox::Bounded(_))
                        && v.hist.iter().any(|e| matches!(&e.kind, EvKind::TimerReg { actor, kind: TimerKind::IntervalWith | TimerKind::DelayedSend, .. } if *actor == a));
                    let subscribed = v.ops.iter().any(|p| matches!(p.what, OpWhat::Subscribe(_)) && p.actor == Some(a));
                    if from != u64::MAX && !waiting_timer && !subscribed {
                        let mut mine: Vec<&InvRec> = v.invs.iter().filter(|i| i.actor == a && i.enter > from).collect();
                        mine.sort_by_key(|i| i.enter);
                        let (mut run, mut worst) = (0usize, 0usize);
                        for i in mine {
                            if matches!(i.msg, MsgRef::Item(_)) {
                                run += 1;
                                worst = worst.max(run);
                            } else {
                                run = 0;
                            }
                        }
                        if worst >= 48 {
                            vd.fail("C05/last_drop_starved_by_items", format!("actor {a}: the last strong handle was dropped at {z} (nothing in flight after {from}), yet {worst} stream items in a row were handled before the loop noticed"));
                        }
                    }
                }
                // (a call whose future was dropped after a poll that cannot have waited for room was accepted too)
                for o in v.client_ops().filter(|o| !stream && o.actor == Some(a) && ((matches!(o.what, OpWhat::Send | OpWhat::Call) && o.ok()) || super::c04::accepted_when_abandoned(v, o))) {
                    if o.end.is_some_and(|e| e < z) {
                        let invs = v.inv_of_msg(o.msg.unwrap());
                        if z < teardown && invs.first().is_some_and(|i| i.enter > z) {
                            vd.class("queued_at_last_drop");
                            nt = true;
                        }
                        if invs.is_empty() || invs[0].exit.is_none() {
                            vd.fail(
                                format!("C05/drain_lost/{:?}", o.what),
                                format!("actor {a}: message {} accepted at {:?}, before the last strong handle was dropped at {z}, was not handled", o.msg.unwrap(), o.end),
                            );
                        }
                    }
                }
                let settle = v.phase(Phase::Settle);
                if av.task_end.is_some_and(|(s, _)| s > teardown) && z < settle && (!stream || super::c04::stop_overdue(v, a, teardown)) {
                    // everything it had accepted fits into the settle window: something kept it alive until the world was torn down
                    vd.fail("C05/kept_alive_until_teardown", format!("actor {a}: the last strong handle was dropped at {z} (run phase), but the actor only terminated at {:?}, after the harness had unregistered services and brokers at {teardown}", av.task_end));
                }
                if av.task_end.is_none() {
                    vd.fail("C05/kept_alive", format!("actor {a}: the last strong handle was dropped at {z} but the actor never terminated (only weak handles, timers, subscriptions were left)"));
                } else if !av.graceful {
                    vd.fail("C05/not_graceful_after_last_drop", format!("actor {a}: last strong handle dropped at {z}; termination was not graceful: {:?}", av.task_end));
                }
                // nothing time-driven delays the end: the wind-down begins as soon as the last handle is gone,
                // the handlers and callbacks that were running or queued have finished and no in-flight
                // operation holds a temporary handle
                let wind = v.cbs.iter().filter(|c| c.actor == a && c.enter > z && matches!(c.cb, Cb::Stopped | Cb::Finished)).map(|c| (c.enter, c.enter_time)).min();
                if let (Some((wind, wind_time)), false, true) = (wind, stream, z < teardown) {
                    let time_of = |s: u64| v.hist.iter().find(|e| e.stamp >= s).map(|e| e.time).unwrap_or(u64::MAX);
                    let timeout = v.rt[a].timeout.map(|(x, _)| x as u64);
                    let mut latest = time_of(z);
                    let mut unknown = false;
                    for i in v.invs.iter().filter(|i| i.actor == a && i.enter < wind) {
                        latest = latest.max(match (i.exit, timeout) {
                            (Some(_), _) => i.exit_time,
                            (None, Some(x)) => i.enter_time + x,
                            (None, None) => u64::MAX,
                        });
                    }
                    for c in v.cbs.iter().filter(|c| c.actor == a && c.enter < wind) {
                        latest = latest.max(c.exit.map(time_of).unwrap_or(u64::MAX));
                    }
                    for p in v.ops.iter().filter(|p| (p.actor == Some(a) || matches!(p.what, OpWhat::Publish(_))) && p.begin < wind && p.end_or_max() > z) {
                        match p.end {
                            Some(_) => latest = latest.max(p.end_time),
                            None => unknown = true,
                        }
                    }
                    // a timer whose waiting send is blocked holds an upgraded sender meanwhile; so does the
                    // broker while it fans a publication out
                    let waiting_timer = matches!(v.rt[a].mailbox, Mailbox::Bounded(_))
                        && v.hist.iter().any(|e| matches!(&e.kind, EvKind::TimerReg { actor, kind: TimerKind::IntervalWith | TimerKind::DelayedSend, .. } if *actor == a));
                    let subscribed = v.ops.iter().any(|p| matches!(p.what, OpWhat::Subscribe(_)) && p.actor == Some(a));
                    if !unknown && !waiting_timer && !subscribed && latest != u64::MAX && wind_time > latest {
                        vd.fail(
                            "C05/lingered_after_last_drop",
                            format!("actor {a}: the last strong handle was dropped at {z}; everything it was doing or could still receive was over by t={latest}, yet it only began to wind down at t={wind_time} (stamp {wind}): something time-driven kept it alive"),
                        );
                    }
                }
                // timers/subscriptions active at that moment?
                let timer_active = v.hist.iter().any(|e| matches!(&e.kind, EvKind::TimerReg { actor, .. } if *actor == a && e.stamp < z));
                if timer_active && z < teardown {
                    vd.class("timer_active_at_last_drop");
                    nt = true;
                }
                let sub_active = v.ops.iter().any(|o| matches!(o.what, OpWhat::Subscribe(_)) && o.actor == Some(a) && o.begin < z);
                if sub_active && z < teardown {
                    vd.class("subscription_active_at_last_drop");
                    nt = true;
                }
            }
        }
        // (c) upgrade fails forever once no strong handle is left
        for o in v.client_ops().filter(|o| o.actor == Some(a) && o.what == OpWhat::Upgrade && o.end.is_some()) {
            let dead = v.dead_from(a);
            let ok = matches!(o.res, Some(OpRes::Opt(true)));
            if o.begin > dead {
                vd.class("upgrade_after_end");
                nt = true;
                if ok {
                    vd.fail(format!("C05/upgrade_after_end/via={:?}", o.via), format!("actor {a}: upgrade of a {:?} at {} succeeded although the actor had ended at {dead}", o.via, o.begin));
                }
            } else if let Some(z) = zero_events[a].iter().copied().filter(|z| *z < o.begin).max() {
                // count is 0 since z (no strong handle was created in between)
                if count_at(a, o.begin) == 0 && !hidden_holder {
                    // temporaries: in-flight client operations, blocked timer sends, publications
                    let temp = v.ops.iter().any(|p| {
                        (p.actor == Some(a) || matches!(p.what, OpWhat::Publish(_))) && p.begin < o.begin && p.end_or_max() > z && (p.client, p.op) != (o.client, o.op)
                            && matches!(p.what, OpWhat::Send | OpWhat::Call | OpWhat::SendAbandoned | OpWhat::CallAbandoned | OpWhat::Halt | OpWhat::TryHalt | OpWhat::AwaitClone | OpWhat::Publish(_) | OpWhat::Ping)
                    });
                    // a publication that the broker may still be fanning out holds upgraded senders of its subscribers
                    let subscribed = v.ops.iter().any(|p| matches!(p.what, OpWhat::Subscribe(_)) && p.actor == Some(a));
                    let temp = temp || (subscribed && v.ops.iter().any(|p| matches!(p.what, OpWhat::Publish(_)) && p.begin < o.begin));
                    let waiting_timer = matches!(v.rt[a].mailbox, Mailbox::Bounded(_))
                        && v.hist.iter().any(|e| matches!(&e.kind, EvKind::TimerReg { actor, kind: TimerKind::IntervalWith | TimerKind::DelayedSend, .. } if *actor == a));
                    if !temp && !waiting_timer {
                        vd.class("upgrade_after_last_drop");
                        nt = true;
                        if ok {
                            vd.fail(
                                format!("C05/upgrade_after_last_drop/via={:?}", o.via),
                                format!("actor {a}: upgrade of a {:?} at {} succeeded although the last strong handle had been dropped at {z}", o.via, o.begin),
                            );
                        }
                    }
                }
            }
        }
    }
    // (d) at quiescence nothing is left: every actor task and every timer task has ended
    let leaked: Vec<String> = v
        .tasks
        .iter()
        .filter(|t| t.end.is_none() && matches!(t.tag, TaskTag::Actor(_) | TaskTag::Timer { .. } | TaskTag::Aux))
        .map(|t| format!("{:?}", t.tag))
        .collect();
    if !leaked.is_empty() {
        let kinds: std::collections::BTreeSet<&str> = v
            .tasks
            .iter()
            .filter(|t| t.end.is_none())
            .map(|t| match t.tag {
                TaskTag::Actor(_) => "actor",
                TaskTag::Timer { .. } => "timer",
                TaskTag::Aux => "aux",
                _ => "other",
            })
            .collect();
        vd.fail(
            format!("C05/alive_at_quiescence/{}", kinds.into_iter().collect::<Vec<_>>().join("+")),
            format!("after every strong handle was dropped these tasks were still alive at the end: {leaked:?}"),
        );
    }
    vd.nontrivial = nt;
}
