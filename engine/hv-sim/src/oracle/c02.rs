//! C02 Calls return their own handler's result, and every operation resolves.
use std::collections::BTreeMap;

use super::Verdict;
use crate::{analysis::*, history::*, model::*};

fn must_resolve(w: OpWhat) -> bool {
    matches!(
        w,
        OpWhat::Send
            | OpWhat::Call
            | OpWhat::Ping
            | OpWhat::Stop
            | OpWhat::Halt
            | OpWhat::TryStop
            | OpWhat::TryHalt
            | OpWhat::Restart
            | OpWhat::Consume
            | OpWhat::ConsumeSync
    )
}

/// (a) replies belong to the caller's own message and its single invocation
pub fn own_reply(v: &View, vd: &mut Verdict, prop: &str) {
    let mut inv_used: BTreeMap<u32, (usize, usize)> = BTreeMap::new();
    for o in v.client_ops().filter(|o| matches!(o.what, OpWhat::Call | OpWhat::CallAbandoned)) {
        let Some(r) = o.reply() else { continue };
        let id = o.msg.unwrap();
        if r.msg != MsgRef::Client(id) {
            vd.fail(format!("{prop}/reply_swapped"), format!("call client {} op {} (msg {id}) got the reply for {:?}", o.client, o.op, r.msg));
            continue;
        }
        let invs = v.inv_of_msg(id);
        if invs.len() != 1 {
            vd.fail(
                format!("{prop}/reply_invocations"),
                format!("call client {} op {} returned Ok but its message has {} handler invocations", o.client, o.op, invs.len()),
            );
            continue;
        }
        let inv = invs[0];
        if inv.inv != r.inv || inv.exit.is_none() {
            vd.fail(
                format!("{prop}/reply_invented"),
                format!("call client {} op {} returned Ok with invocation {} but the history has invocation {} (exit {:?})", o.client, o.op, r.inv, inv.inv, inv.exit),
            );
        }
        if Some(r.actor) != o.actor {
            vd.fail(
                format!("{prop}/reply_wrong_actor"),
                format!("call client {} op {} through a handle of actor {:?} was answered by actor {}", o.client, o.op, o.actor, r.actor),
            );
        }
        if let Some(prev) = inv_used.insert(r.inv, (o.client, o.op)) {
            vd.fail(format!("{prop}/reply_duplicated"), format!("invocation {} answered both {:?} and {:?}", r.inv, prev, (o.client, o.op)));
        }
        if o.end.is_some_and(|e| inv.exit.is_some_and(|x| e < x)) {
            vd.fail(format!("{prop}/reply_early"), format!("call client {} op {} returned before its handler exited", o.client, o.op));
        }
    }
}

/// (a') a call whose handler ran to completion gets that handler's result: the response is on its way
/// before anything else can happen to the actor, so neither a stop queued right behind the message nor
/// the actor's end turns it into an error
pub fn handled_call_ok(v: &View, vd: &mut Verdict, prop: &str) {
    for o in v.client_ops().filter(|o| o.what == OpWhat::Call && o.err()) {
        let id = o.msg.unwrap();
        let invs = v.inv_of_msg(id);
        if invs.len() == 1 && invs[0].exit.is_some() {
            vd.fail(
                format!("{prop}/handled_call_err"),
                format!("call client {} op {} (msg {id}) was handled to completion (invocation {} exited at {:?}) but returned {:?}", o.client, o.op, invs[0].inv, invs[0].exit, o.res),
            );
        }
    }
}

/// (b) nothing hangs
pub fn resolves(v: &View, vd: &mut Verdict, prop: &str) {
    for o in v.client_ops() {
        if o.end.is_some() {
            continue;
        }
        let dead = o.actor.map(|a| v.dead_from(a)).unwrap_or(u64::MAX);
        let hang = if must_resolve(o.what) {
            true
        } else if matches!(o.what, OpWhat::AwaitClone | OpWhat::Join) {
            // (a client still waiting at teardown is cancelled by the harness)
            dead < v.phase(Phase::Teardown)
        } else {
            false
        };
        if hang {
            vd.fail(
                format!("{prop}/hang/{:?}/via={:?}", o.what, o.via),
                format!("client {} op {} {:?} via {:?} on actor {:?} began at {} and never resolved (actor task ended at {:?})", o.client, o.op, o.what, o.via, o.actor, o.begin, if dead == u64::MAX { None } else { Some(dead) }),
            );
        }
    }
}

/// (c) operations on a terminated actor fail
pub fn errors_after_death(v: &View, vd: &mut Verdict, prop: &str) {
    for o in v.client_ops() {
        let Some(a) = o.actor else { continue };
        let dead = v.dead_from(a);
        if dead == u64::MAX || o.end.is_none() {
            continue;
        }
        let graceful = v.actors[a].graceful;
        if o.begin > dead {
            match o.what {
                OpWhat::Send | OpWhat::Call | OpWhat::Ping | OpWhat::Stop | OpWhat::TryStop | OpWhat::Halt | OpWhat::TryHalt | OpWhat::Restart => {
                    if !o.err() {
                        vd.fail(
                            format!("{prop}/ok_after_death/{:?}/via={:?}", o.what, o.via),
                            format!("client {} op {} {:?} via {:?} began at {} after actor {a} ended at {dead} and returned {:?}", o.client, o.op, o.what, o.via, o.begin, o.res),
                        );
                    }
                }
                OpWhat::AwaitClone => {
                    if o.ok() != graceful {
                        vd.fail(
                            format!("{prop}/await_result/graceful={graceful}"),
                            format!("client {} op {} awaited actor {a} after its end (graceful={graceful}) and got {:?}", o.client, o.op, o.res),
                        );
                    }
                }
                _ => {}
            }
        } else if o.end.unwrap() > dead {
            // pending at the moment of death: calls and pings that were never handled must fail
            match o.what {
                OpWhat::Call => {
                    if o.ok() && v.inv_of_msg(o.msg.unwrap()).iter().all(|i| i.exit.is_none()) {
                        vd.fail(format!("{prop}/ok_unhandled"), format!("call client {} op {} returned Ok although its handler never completed", o.client, o.op));
                    }
                }
                OpWhat::AwaitClone => {
                    if o.ok() != graceful {
                        vd.fail(
                            format!("{prop}/await_result/graceful={graceful}"),
                            format!("client {} op {} awaited actor {a} across its end (graceful={graceful}) and got {:?}", o.client, o.op, o.res),
                        );
                    }
                }
                // halt / try_halt that were waiting for the end report how it ended
                OpWhat::Halt | OpWhat::TryHalt if o.was_pending => {
                    if o.ok() != graceful {
                        vd.fail(
                            format!("{prop}/halt_result/{:?}/graceful={graceful}", o.what),
                            format!("client {} op {} {:?} waited for actor {a} across its end (graceful={graceful}) and got {:?}", o.client, o.op, o.what, o.res),
                        );
                    }
                }
                _ => {}
            }
        }
    }
    // a ping submitted after an accepted stop request had returned is queued behind the stop: it is
    // never answered, so it must fail once the actor is gone
    for a in 0..v.actors.len() {
        let accepted = v.actors[a].stop_reqs.iter().filter(|i| v.ops[**i].ok()).filter_map(|i| v.ops[*i].end).min();
        let Some(acc) = accepted else { continue };
        for o in v.client_ops().filter(|o| o.actor == Some(a) && o.what == OpWhat::Ping && o.begin > acc && o.begin < v.phase(Phase::Teardown)) {
            if o.ok() {
                vd.fail(format!("{prop}/ping_ok_behind_stop"), format!("actor {a}: ping at {} (after a stop accepted at {acc}) returned Ok although it could never be processed", o.begin));
            }
        }
    }
    // a call that returned Err must not have a completed handler whose reply was lost?  No: the
    // statement does not promise that (timeouts abandon handlers).  A call that returned Ok for a
    // message without completed invocation is covered by own_reply.
}

pub fn check(v: &View, vd: &mut Verdict) {
    super::c01::structural(v, vd, "C02/sanity");
    // sanity rules of another property never produce a C02 violation
    vd.violations.retain(|x| !x.sig.starts_with("C02/sanity"));
    own_reply(v, vd, "C02");
    handled_call_ok(v, vd, "C02");
    resolves(v, vd, "C02");
    errors_after_death(v, vd, "C02");
    for (tag, msg) in &v.flags.foreign_panics {
        vd.fail("C02/panic", format!("task {tag} panicked: {msg}"));
    }
    // classes
    let calls: Vec<&OpRec> = v.client_ops().filter(|o| matches!(o.what, OpWhat::Call | OpWhat::CallAbandoned)).collect();
    if v.client_ops().any(|o| matches!(o.res, Some(OpRes::Abandoned))) {
        vd.class("call_future_dropped");
    }
    let concurrent_calls = calls.iter().any(|a| {
        calls.iter().any(|b| (a.client, a.op) != (b.client, b.op) && a.actor == b.actor && a.begin < b.begin && b.begin < a.end_or_max())
    });
    if concurrent_calls {
        vd.class("concurrent_calls");
    }
    let pending_at_death = v.client_ops().any(|o| {
        o.actor.is_some_and(|a| {
            let d = v.dead_from(a);
            d != u64::MAX && v.phase(Phase::Teardown) > d && o.begin < d && o.end_or_max() > d && must_resolve(o.what)
        })
    });
    if pending_at_death {
        vd.class("op_pending_at_death");
    }
    let after_death = v.client_ops().any(|o| o.actor.is_some_and(|a| o.begin > v.dead_from(a)) && must_resolve(o.what));
    if after_death {
        vd.class("op_after_death");
    }
    for (a, av) in v.actors.iter().enumerate() {
        if let Some((s, end)) = av.task_end {
            if s < v.phase(Phase::Teardown) {
                vd.class(match end {
                    crate::sim::TaskEnd::Done if av.graceful => "end_graceful",
                    crate::sim::TaskEnd::Done => "end_failed",
                    crate::sim::TaskEnd::Panicked { .. } => "end_panicked",
                    crate::sim::TaskEnd::Cancelled => "end_cancelled",
                });
            }
        }
        let _ = a;
    }
    vd.nontrivial = concurrent_calls || pending_at_death;
}
