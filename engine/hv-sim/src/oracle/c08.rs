//! C08 Service registry: one live instance per type, spawned on demand, linearizable.
use std::collections::{BTreeMap, HashSet};

use super::Verdict;
use crate::{analysis::*, history::*, model::*};

#[derive(Clone, Debug)]
struct ROp<'a> {
    o: &'a OpRec,
    rop: RegOp,
    res: &'a RegRes,
    /// default instance created by this op's task during the op
    created: Option<ActorId>,
}

fn may_be_alive(v: &View, x: ActorId, o: &OpRec) -> bool {
    o.begin < v.dead_from(x)
}
fn may_be_dead(v: &View, x: ActorId, o: &OpRec) -> bool {
    o.end_or_max() > v.alive_until(x)
}

/// apply `op` to the model state `reg`; None = the observed result is not allowed in this state
fn step(v: &View, reg: Option<ActorId>, op: &ROp, overlapped: bool) -> Option<Option<ActorId>> {
    let o = op.o;
    let ident_ok = |id: &Ident, x: ActorId| match id {
        Ident::Live { actor, .. } => *actor == x,
        Ident::Dead { .. } => may_be_dead(v, x, o),
    };
    match (op.rop, op.res) {
        (RegOp::FromRegistry, RegRes::Got(id)) | (RegOp::Setup, RegRes::Got(id)) => {
            let is_setup = op.rop == RegOp::Setup;
            match op.created {
                Some(d) => {
                    // respawn: only if nothing is registered or the registered one may be dead
                    if reg.is_some_and(|x| !may_be_dead(v, x, o)) {
                        return None;
                    }
                    if !is_setup && !ident_ok(id, d) {
                        return None;
                    }
                    Some(Some(d))
                }
                None => {
                    let x = reg?;
                    if !may_be_alive(v, x, o) {
                        return None;
                    }
                    if !is_setup && !ident_ok(id, x) {
                        return None;
                    }
                    Some(Some(x))
                }
            }
        }
        (RegOp::Register, RegRes::Registered { me, replaced }) => match (reg, replaced) {
            (None, None) => Some(Some(*me)),
            (Some(x), Some(r)) if may_be_dead(v, x, o) && (*r == usize::MAX || *r == x) => Some(Some(*me)),
            _ => None,
        },
        (RegOp::Register, RegRes::RegisterErr { .. }) => {
            let x = reg?;
            if may_be_alive(v, x, o) { Some(Some(x)) } else { None }
        }
        (RegOp::Replace, RegRes::Prev { me, prev }) => match (reg, prev) {
            (None, None) => Some(*me),
            (Some(x), Some(r)) if *r == usize::MAX || *r == x => Some(*me),
            _ => None,
        },
        (RegOp::Unregister, RegRes::Prev { prev, .. }) => match (reg, prev) {
            (None, None) => Some(None),
            (Some(x), Some(r)) if *r == usize::MAX || *r == x => Some(None),
            _ => None,
        },
        (RegOp::TryFromRegistry, RegRes::TryGot(got)) => match (reg, got) {
            // try_read: None is allowed whenever another registry operation is in flight
            (_, None) if overlapped => Some(reg),
            (None, None) => Some(None),
            (Some(x), None) => if may_be_dead(v, x, o) { Some(reg) } else { None },
            (Some(x), Some(id)) => if may_be_alive(v, x, o) && ident_ok(id, x) { Some(reg) } else { None },
            (None, Some(_)) => None,
        },
        (RegOp::AlreadyRunning, RegRes::Running(r)) => match (reg, r) {
            (None, None) => Some(None),
            (Some(x), Some(true)) => if may_be_alive(v, x, o) { Some(reg) } else { None },
            (Some(x), Some(false)) => if may_be_dead(v, x, o) { Some(reg) } else { None },
            _ => None,
        },
        _ => None,
    }
}

fn search(v: &View, ops: &[ROp], done: u32, reg: Option<ActorId>, memo: &mut HashSet<(u32, Option<ActorId>)>, deepest: &mut (u32, Vec<usize>)) -> bool {
    let n = ops.len();
    if done.count_ones() as usize == n {
        return true;
    }
    if !memo.insert((done, reg)) {
        return false;
    }
    // candidates: not done, and no other not-done op ended before it began
    let mut blocked: Vec<usize> = vec![];
    for i in 0..n {
        if done & (1 << i) != 0 {
            continue;
        }
        let minimal = (0..n).all(|j| j == i || done & (1 << j) != 0 || !(ops[j].o.end_or_max() < ops[i].o.begin));
        if !minimal {
            continue;
        }
        // the registry is one lock for all service types: any registry operation in flight counts
        let overlapped = v
            .ops
            .iter()
            .filter(|p| matches!(p.what, OpWhat::Reg(..)) && (p.client, p.op) != (ops[i].o.client, ops[i].o.op))
            .any(|p| p.begin < ops[i].o.end_or_max() && ops[i].o.begin < p.end_or_max());
        if let Some(next) = step(v, reg, &ops[i], overlapped) {
            if search(v, ops, done | (1 << i), next, memo, deepest) {
                return true;
            }
        } else {
            blocked.push(i);
        }
    }
    if done.count_ones() >= deepest.0 {
        *deepest = (done.count_ones(), blocked);
    }
    false
}

pub fn check(v: &View, vd: &mut Verdict) {
    let mut nt = false;
    // task of each client / actor, to attribute default instances to the operation that made them
    let mut created_by: Vec<(u64, Option<usize>, ActorId)> = vec![]; // (stamp, task, actor)
    for e in v.hist {
        if let EvKind::ActorNew { actor, origin: Origin::Default, .. } = &e.kind {
            if v.rt[*actor].origin == Origin::Default {
                created_by.push((e.stamp, e.task, *actor));
            }
        }
    }
    let task_of_op = |o: &OpRec| v.hist.iter().find(|e| e.stamp == o.begin).and_then(|e| e.task);
    for kind in 0u8..2 {
        let mut ops: Vec<ROp> = vec![];
        let mut hang = false;
        for o in v.ops.iter().filter(|o| matches!(o.what, OpWhat::Reg(_, k) if k == kind)) {
            let OpWhat::Reg(rop, _) = o.what else { continue };
            let Some(OpRes::Reg(res)) = &o.res else {
                // a registry operation that never returned
                hang = true;
                let nested = v.case.default_beh.iter().any(|b| b.started.iter().any(|s| matches!(s, Step::Lookup(_))));
                vd.fail(
                    format!("C08/operation_hangs/{rop:?}/nested_lookup={nested}"),
                    format!("service kind {kind}: {rop:?} begun at {} by client {} never returned", o.begin, o.client),
                );
                continue;
            };
            // evidence instead of inference: the harness identifies a replaced entry by calling it *after*
            // register() has returned - an entry that still answers was alive when register() decided
            if let (RegOp::Register, RegRes::Registered { me, replaced: Some(x) }) = (rop, res) {
                if *x != usize::MAX {
                    vd.fail(
                        "C08/register_replaced_live_instance",
                        format!("service kind {kind}: register of instance {me} (begun at {}) succeeded and handed back instance {x} as the replaced entry, which still answered a call afterwards", o.begin),
                    );
                }
            }
            let task = task_of_op(o);
            let created = created_by
                .iter()
                .find(|(s, t, a)| *s > o.begin && *s < o.end_or_max() && *t == task && v.rt[*a].kind == kind)
                .map(|x| x.2);
            ops.push(ROp { o, rop, res, created });
        }
        if ops.is_empty() || hang {
            continue;
        }
        if ops.len() > 20 {
            continue;
        }
        ops.sort_by_key(|r| r.o.begin);
        let overlapping = ops.windows(2).any(|w| w[0].o.end_or_max() > w[1].o.begin);
        if overlapping {
            vd.class("overlapping_registry_ops");
            nt = true;
        }
        // initial registration from the set-up
        let mut init: Option<ActorId> = None;
        for (slot, spec) in v.case.actors.iter().enumerate() {
            if spec.kind == kind && matches!(spec.spawn, SpawnSpec::Register { .. }) {
                if v.hist.iter().any(|e| matches!(&e.kind, EvKind::Note(s) if s == &format!("setup-register actor={slot} ok=true"))) {
                    init = Some(slot);
                }
            }
        }
        // ---- specific pre-checks on sequential stretches (unambiguous, specific signatures)
        let mut specific = false;
        {
            let mut reg = init;
            let mut exact = !overlapping;
            for r in &ops {
                if !exact {
                    break;
                }
                let o = r.o;
                if let Some(x) = reg {
                    let def_dead = v.dead_from(x) < o.begin;
                    let def_alive = o.end_or_max() < v.alive_until(x);
                    if def_dead {
                        vd.class("lookup_after_termination");
                        nt = true;
                    }
                    match (r.rop, r.res) {
                        (RegOp::AlreadyRunning, RegRes::Running(Some(b))) => {
                            if def_alive && !*b {
                                specific = true;
                                vd.fail("C08/already_running/alive_reported_false", format!("service kind {kind}: instance {x} is registered and alive, already_running() at {} returned Some(false)", o.begin));
                            }
                            if def_dead && *b {
                                specific = true;
                                vd.fail("C08/already_running/terminated_reported_true", format!("service kind {kind}: instance {x} ended at {}, already_running() at {} returned Some(true)", v.dead_from(x), o.begin));
                            }
                        }
                        (RegOp::FromRegistry, RegRes::Got(id)) if def_dead && r.created.is_none() => {
                            specific = true;
                            vd.fail("C08/returned_terminated/from_registry", format!("service kind {kind}: instance {x} ended at {}, from_registry at {} returned it again ({id:?}) instead of spawning a fresh one", v.dead_from(x), o.begin));
                        }
                        (RegOp::Setup, _) if def_dead && r.created.is_none() => {
                            specific = true;
                            vd.fail("C08/returned_terminated/setup", format!("service kind {kind}: instance {x} ended at {}, setup at {} did not spawn a fresh one", v.dead_from(x), o.begin));
                        }
                        (RegOp::TryFromRegistry, RegRes::TryGot(Some(id))) if def_dead => {
                            specific = true;
                            vd.fail("C08/returned_terminated/try_from_registry", format!("service kind {kind}: instance {x} ended at {}, try_from_registry at {} returned {id:?}", v.dead_from(x), o.begin));
                        }
                        (RegOp::Register, RegRes::RegisterErr { err, .. }) if def_dead => {
                            specific = true;
                            vd.fail("C08/register_rejected_for_terminated", format!("service kind {kind}: instance {x} ended at {}, register at {} failed with {err}", v.dead_from(x), o.begin));
                        }
                        _ => {}
                    }
                }
                match step(v, reg, r, false) {
                    Some(next) => reg = next,
                    None => exact = false,
                }
            }
        }
        if specific {
            continue;
        }
        // ---- general linearizability search
        let mut memo = HashSet::new();
        let mut deepest = (0u32, vec![]);
        if !search(v, &ops, 0, init, &mut memo, &mut deepest) {
            let culprit = deepest.1.first().map(|i| format!("{:?}", ops[*i].rop)).unwrap_or_else(|| "?".into());
            let desc: Vec<String> = ops.iter().map(|r| format!("[{}..{:?}] client {} {:?} -> {:?} created={:?}", r.o.begin, r.o.end, r.o.client, r.rop, r.res, r.created)).collect();
            vd.fail(
                format!("C08/not_linearizable/{culprit}"),
                format!("service kind {kind}: no sequential registry history (initially {init:?}) explains these results; stuck after {} ops at {:?}: {desc:#?}", deepest.0, deepest.1),
            );
        }
    }
    // default instances: never two live at once is implied by the model; count sanity for the classes
    let defaults: BTreeMap<u8, usize> = v.rt.iter().filter(|r| r.origin == Origin::Default).fold(BTreeMap::new(), |mut m, r| {
        *m.entry(r.kind).or_default() += 1;
        m
    });
    if defaults.values().any(|c| *c >= 2) {
        vd.class("respawned");
    }
    if v.case.clients.len() >= 2 {
        vd.class("concurrent_tasks");
    }
    vd.nontrivial = nt;
}
