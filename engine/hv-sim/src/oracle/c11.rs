//! C11 Handler timeouts abandon exactly the invocations that exceed the limit.
use super::Verdict;
use crate::{analysis::*, history::*, model::*};

fn duration(work: &[Step]) -> u64 {
    work.iter().map(|s| if let Step::Sleep(t) = s { *t as u64 } else { 0 }).sum()
}

pub fn check(v: &View, vd: &mut Verdict) {
    let mut completed = false;
    let mut abandoned = false;
    let mut behind = false;
    for a in 0..v.actors.len() {
        if v.actors[a].spawned.is_none() {
            continue;
        }
        let cfg = v.rt[a].timeout;
        let dead = v.dead_from(a);
        let invs: Vec<&InvRec> = v.invs.iter().filter(|i| i.actor == a).collect();
        let mut failed_at: Option<u64> = None;
        for (k, i) in invs.iter().enumerate() {
            let MsgRef::Client(id) = i.msg else { continue };
            let Some(work) = v.work_of(id) else { continue };
            let d = duration(work);
            let op = v.client_ops().find(|o| o.msg == Some(id) && matches!(o.what, OpWhat::Send | OpWhat::Call));
            // cut short by the end of the actor (stop of the world at teardown etc.) - not a timeout matter
            // (only the harness' own stop of the world, or an injected fault, ends an actor in the middle of a handler)
            let world_stopped = dead > v.phase(Phase::Teardown) || !v.case.faults.is_empty();
            let cut_by_end = i.exit.is_none() && dead != u64::MAX && world_stopped && !cfg.is_some_and(|(t, _)| d > t as u64);
            match cfg {
                Some((t, fail)) if d > t as u64 => {
                    abandoned = true;
                    if invs.len() > k + 1 {
                        behind = true;
                    }
                    if i.exit.is_some() {
                        vd.fail("C11/slow_completed", format!("actor {a}: message {id} needs {d} ticks, timeout is {t}, but the handler completed"));
                    }
                    if let Some((idx, _, time)) = i.steps.iter().find(|s| s.2 > i.enter_time + t as u64) {
                        vd.fail("C11/effects_after_abandon", format!("actor {a}: message {id} was to be abandoned at t={} but step {idx} completed at t={time}", i.enter_time + t as u64));
                    }
                    if let Some(o) = op {
                        if o.what == OpWhat::Call && o.end.is_some() && !o.err() {
                            vd.fail("C11/abandoned_call_ok", format!("actor {a}: call {id} exceeded the timeout but returned {:?}", o.res));
                        }
                        if o.what == OpWhat::Call && o.end.is_none() {
                            vd.fail("C11/abandoned_call_hangs", format!("actor {a}: call {id} exceeded the timeout and never returned"));
                        }
                        if o.what == OpWhat::Call && o.end.is_some() && o.end_time != i.enter_time + t as u64 {
                            vd.fail("C11/abandoned_at_wrong_time", format!("actor {a}: call {id} entered at t={} with timeout {t} got its error at t={}", i.enter_time, o.end_time));
                        }
                    }
                    if fail {
                        failed_at = Some(i.enter);
                        // actor ends as failed; nothing is handled afterwards
                        if let Some(next) = invs.get(k + 1) {
                            vd.fail("C11/handled_after_fail", format!("actor {a}: fail_on_timeout, message {id} timed out, yet {:?} was handled afterwards at {}", next.msg, next.enter));
                        }
                        break;
                    } else if let Some(next) = invs.get(k + 1) {
                        // the next message is taken at the very instant of the abandonment
                        // (only if it was already queued then)
                        let queued_then = match &next.msg {
                            MsgRef::Client(nid) => v.client_ops().find(|o| o.msg == Some(*nid) && matches!(o.what, OpWhat::Send | OpWhat::Call)).is_some_and(|o| o.begin_time < i.enter_time + t as u64),
                            _ => false,
                        };
                        if queued_then && next.enter_time != i.enter_time + t as u64 {
                            vd.fail("C11/next_not_at_timeout", format!("actor {a}: message {id} entered at t={} (timeout {t}); the next queued message was entered at t={}", i.enter_time, next.enter_time));
                        }
                    }
                }
                _ => {
                    if cut_by_end {
                        continue;
                    }
                    // exactly t: the property speaks of "less" and "more" - either outcome is right (the
                    // generators never produce it, a minimised or hand-written replay file may)
                    if cfg.is_some_and(|(t, _)| d == t as u64) {
                        continue;
                    }
                    if i.exit.is_none() {
                        let sig = match cfg {
                            Some((t, _)) => format!("C11/fast_abandoned/d={}", if d < t as u64 { "less" } else { "equal" }),
                            None => "C11/abandoned_without_timeout".to_string(),
                        };
                        vd.fail(sig, format!("actor {a}: message {id} needs {d} ticks, timeout {:?}, but its handler never completed (entered at {}, actor ended at {:?})", cfg, i.enter, if dead == u64::MAX { None } else { Some(dead) }));
                    } else {
                        completed = true;
                        if let Some(o) = op {
                            if o.what == OpWhat::Call && o.end.is_some() && !o.ok() {
                                vd.fail("C11/completed_call_err", format!("actor {a}: call {id} completed within the limit but returned {:?}", o.res));
                            }
                        }
                    }
                }
            }
        }
        // timer ticks are handler invocations like any other (the family registers at most one timer, in
        // `started`, so every tick of this actor runs that timer's work)
        let tick_work: Option<u64> = v.rt[a].slot.and_then(|s| {
            v.case.actors[s].beh.started.iter().find_map(|st| if let Step::AddTimer(t) = st { Some(duration(&t.work)) } else { None })
        });
        if let Some(d) = tick_work {
            let world_stopped = dead > v.phase(Phase::Teardown) || !v.case.faults.is_empty();
            for (k, i) in invs.iter().enumerate() {
                if !matches!(i.msg, MsgRef::Tick { .. }) {
                    continue;
                }
                if failed_at.is_some_and(|f| i.enter > f) {
                    break;
                }
                match cfg {
                    Some((t, fail)) if d > t as u64 => {
                        vd.class("tick_exceeds_timeout");
                        if i.exit.is_some() {
                            vd.fail("C11/slow_tick_completed", format!("actor {a}: a timer tick needs {d} ticks, timeout is {t}, but its handler completed (entered at {})", i.enter));
                        }
                        if fail {
                            if failed_at.is_none() {
                                failed_at = Some(i.enter);
                            }
                            if let Some(next) = invs.get(k + 1) {
                                vd.fail("C11/handled_after_fail", format!("actor {a}: fail_on_timeout, a tick timed out, yet {:?} was handled afterwards at {}", next.msg, next.enter));
                            }
                            break;
                        }
                    }
                    _ => {
                        if i.exit.is_none() && !(dead != u64::MAX && world_stopped) && failed_at.is_none() {
                            vd.fail("C11/fast_tick_abandoned", format!("actor {a}: a timer tick needs {d} ticks, timeout {cfg:?}, but its handler never completed (entered at {})", i.enter));
                        }
                    }
                }
            }
        }
        if let Some(s) = failed_at {
            vd.class("fail_on_timeout_triggered");
            if v.actors[a].task_end.is_none() {
                vd.fail("C11/fail_not_terminated", format!("actor {a}: fail_on_timeout triggered at {s} but the actor did not terminate"));
            }
            for o in v.client_ops().filter(|o| o.actor == Some(a) && o.end.is_some() && o.begin > dead) {
                let bad = match (&o.what, &o.res) {
                    (OpWhat::AwaitClone, Some(r)) => r.is_ok(),
                    (OpWhat::Join, Some(OpRes::Joined(Some(_)))) => true,
                    (OpWhat::Call | OpWhat::Send | OpWhat::Ping, Some(r)) => !r.is_err(),
                    _ => false,
                };
                if bad {
                    vd.fail(format!("C11/fail_not_failed/{:?}", o.what), format!("actor {a}: failed on timeout, but client {} op {} {:?} got {:?}", o.client, o.op, o.what, o.res));
                }
            }
        }
        // carrying on means the same value, not a restarted or recreated one (nobody asked for a restart)
        let starts = v.cbs.iter().filter(|c| c.actor == a && c.cb == Cb::Started).count();
        let restart_requested = v.client_ops().any(|o| o.actor == Some(a) && o.what == OpWhat::Restart);
        if starts > 1 && !restart_requested {
            vd.fail("C11/state_reset_after_timeout", format!("actor {a}: started() ran {starts} times although nobody requested a restart (a handler timeout must leave the actor's state intact)"));
        }
        if cfg.is_some() {
            vd.class("timeout_configured");
        } else {
            vd.class("no_timeout");
        }
    }
    // state intact: fold rules (began has the abandoned id, done has not); the timers the actor had armed
    // are part of that state
    super::c01::structural(v, vd, "C11");
    super::c10::timer_died_early(v, vd, "C11");
    if completed && abandoned {
        vd.class("completed_and_abandoned");
    }
    vd.nontrivial = completed && abandoned && behind;
}
