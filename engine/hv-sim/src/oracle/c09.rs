//! C09 Broker delivers each publication exactly once, in one common order.
use std::collections::BTreeMap;

use super::Verdict;
use crate::{analysis::*, history::*, model::*, sim::TaskTag};

#[derive(Clone, Copy, PartialEq, Debug)]
enum Class {
    Must,
    MustNot,
    May,
}

pub fn check(v: &View, vd: &mut Verdict) {
    let teardown = v.phase(Phase::Teardown);
    let n = v.actors.len();
    let mut nt_deliveries = 0;
    let mut special = false;
    for topic in 0u8..2 {
        // publications (client ops and handler-side pseudo ops)
        let pubs: Vec<&OpRec> = v.ops.iter().filter(|o| o.what == OpWhat::Publish(topic)).collect();
        if pubs.is_empty() {
            continue;
        }
        // subscription changes per actor
        let subs: Vec<&OpRec> = v.ops.iter().filter(|o| matches!(o.what, OpWhat::Subscribe(t) | OpWhat::Unsubscribe(t) if t == topic)).collect();
        let pings: Vec<&OpRec> = v.ops.iter().filter(|o| o.what == OpWhat::BrokerPing(topic) && o.ok()).collect();
        if subs.iter().any(|s| matches!(s.what, OpWhat::Unsubscribe(_))) {
            special = true;
        }
        let mut received: Vec<Vec<(u64, u32)>> = vec![vec![]; n]; // per actor: (enter stamp, pub id)
        for i in &v.invs {
            if let MsgRef::Topic { topic: t, id } = i.msg {
                if t == topic {
                    received[i.actor].push((i.enter, id));
                }
            }
        }
        if pubs.iter().map(|p| p.client).collect::<std::collections::BTreeSet<_>>().len() > 1 {
            special = true;
        }
        for p in &pubs {
            let id = p.msg.unwrap();
            // every publish resolves Ok, regardless of dead subscribers
            match (&p.res, p.end) {
                (_, None) => {
                    vd.fail("C09/publish_hangs", format!("publication {id} on topic {topic} (client {}) began at {} and never returned", p.client, p.begin));
                    continue;
                }
                (Some(r), _) if !r.is_ok() && p.begin < teardown => {
                    vd.fail("C09/publish_failed", format!("publication {id} on topic {topic} returned {r:?}"));
                }
                _ => {}
            }
            // the broker has certainly processed p at `fence`
            let fence = pings.iter().filter(|g| g.begin > p.end.unwrap()).filter_map(|g| g.end).min().unwrap_or(teardown).min(teardown);
            for s in 0..n {
                if v.actors[s].spawned.is_none() {
                    continue;
                }
                let mine: Vec<&&OpRec> = subs.iter().filter(|o| o.actor == Some(s)).collect();
                let got = received[s].iter().filter(|(_, i)| *i == id).count();
                // classification
                let before: Vec<&&&OpRec> = mine.iter().filter(|o| o.end.is_some_and(|e| e < p.begin)).collect();
                let racing = mine.iter().any(|o| o.end_or_max() >= p.begin && o.begin <= fence);
                let last_before = before.iter().max_by_key(|o| o.end.unwrap());
                let class = if mine.iter().all(|o| o.begin > fence) {
                    Class::MustNot
                } else if racing {
                    Class::May
                } else {
                    match last_before {
                        None => Class::MustNot,
                        Some(o) => {
                            // overlapping subscribe/unsubscribe operations before p: order unknown
                            let ambiguous = before.iter().any(|x| (x.client, x.op) != (o.client, o.op) && x.end.unwrap() > o.begin && std::mem::discriminant(&x.what) != std::mem::discriminant(&o.what));
                            if ambiguous {
                                Class::May
                            } else if matches!(o.what, OpWhat::Unsubscribe(_)) {
                                Class::MustNot
                            } else if !o.ok() {
                                Class::May
                            } else if v.alive_until(s) > fence && fence != u64::MAX {
                                Class::Must
                            } else {
                                Class::May
                            }
                        }
                    }
                };
                match class {
                    Class::Must => {
                        nt_deliveries += 1;
                        if got != 1 {
                            vd.fail(
                                if got == 0 { "C09/delivery_lost" } else { "C09/delivery_duplicated" },
                                format!("topic {topic} publication {id} (published {}..{:?}, processed by {fence}): subscriber {s} subscribed before and alive, received it {got} times", p.begin, p.end),
                            );
                        }
                    }
                    Class::MustNot => {
                        if got != 0 {
                            vd.fail("C09/delivered_to_non_subscriber", format!("topic {topic} publication {id}: actor {s} is not subscribed (never, or unsubscribed before the publish began) but received it {got} times"));
                        }
                    }
                    Class::May => {
                        if got > 1 {
                            vd.fail("C09/delivery_duplicated", format!("topic {topic} publication {id}: actor {s} received it {got} times"));
                        }
                    }
                }
            }
        }
        // re-subscribing does not duplicate: covered by the ≤1 rules.  one common order:
        let mut pos: Vec<BTreeMap<u32, usize>> = vec![BTreeMap::new(); n];
        for s in 0..n {
            received[s].sort();
            for (k, (_, id)) in received[s].iter().enumerate() {
                pos[s].entry(*id).or_insert(k);
            }
        }
        for a in 0..n {
            for b in (a + 1)..n {
                let common: Vec<u32> = pos[a].keys().filter(|k| pos[b].contains_key(k)).copied().collect();
                for x in &common {
                    for y in &common {
                        if x < y && (pos[a][x] < pos[a][y]) != (pos[b][x] < pos[b][y]) {
                            vd.fail("C09/order_differs", format!("topic {topic}: subscribers {a} and {b} saw publications {x} and {y} in different orders"));
                        }
                    }
                }
            }
        }
        // ... that extends every publisher's own order
        for p1 in &pubs {
            for p2 in &pubs {
                if p1.end.is_some_and(|e| e < p2.begin) {
                    let (x, y) = (p1.msg.unwrap(), p2.msg.unwrap());
                    for s in 0..n {
                        if let (Some(a), Some(b)) = (pos[s].get(&x), pos[s].get(&y)) {
                            if a > b {
                                vd.fail("C09/publisher_order_violated", format!("topic {topic}: publication {x} completed before {y} began, but subscriber {s} saw {y} first"));
                            }
                        }
                    }
                }
            }
        }
        if (0..n).filter(|s| received[*s].len() >= 2).count() >= 2 {
            vd.class("two_subscribers_two_deliveries");
        }
    }
    // the broker never keeps a subscriber alive
    for (i, t) in v.tasks.iter().enumerate() {
        if t.end.is_none() {
            if let TaskTag::Actor(a) = t.tag {
                vd.fail("C09/subscriber_kept_alive", format!("actor {a} (task {i}) is still alive at the end although every strong handle was dropped"));
            }
        }
    }
    // ... not even until the next publication: a subscriber whose last strong handle went during the
    // run phase has stopped before the harness unregisters the broker
    {
        let n = v.actors.len();
        let mut strong = vec![0i64; n];
        let mut zero_at: Vec<Option<u64>> = vec![None; n];
        for e in v.hist {
            match &e.kind {
                EvKind::HandleNew { actor, kind, .. } if kind.strong() => {
                    strong[*actor] += 1;
                    zero_at[*actor] = None;
                }
                EvKind::HandleDrop { actor, kind, .. } if kind.strong() => {
                    strong[*actor] -= 1;
                    if strong[*actor] == 0 {
                        zero_at[*actor] = Some(e.stamp);
                    }
                }
                _ => {}
            }
        }
        let settle = v.phase(Phase::Settle);
        for a in 0..n {
            if let (Some(z), Some((end, _))) = (zero_at[a], v.actors[a].task_end) {
                // (an actor that is still working off messages accepted before the drop is not "kept alive":
                // the mailbox is drained first - only one that was idle through the settle window counts)
                let busy = v.invs.iter().any(|i| i.actor == a && i.exit.unwrap_or(u64::MAX) > settle);
                if z < settle && end > teardown && v.actors[a].stop_reqs.is_empty() && !busy {
                    vd.class("last_drop_of_subscriber_in_run_phase");
                    vd.fail("C09/subscriber_kept_alive_until_teardown", format!("actor {a}: its last strong handle was dropped at {z}, but it only stopped at {end}, after the broker had been unregistered at {teardown}"));
                }
            }
        }
    }
    if v.actors.iter().any(|a| a.task_end.is_some_and(|(s, _)| s < teardown)) {
        special = true;
        vd.class("subscriber_terminated");
    }
    if special {
        vd.class("unsub_resub_terminate_or_second_publisher");
    }
    vd.nontrivial = vd.classes.contains("two_subscribers_two_deliveries") && special && nt_deliveries > 0;
}
