//! C04 Stop is a drain barrier and termination is announced after stopped().
use super::Verdict;
use crate::{analysis::*, history::*};

pub fn check(v: &View, vd: &mut Verdict) {
    barrier(v, vd, "C04", true);
    // "its call returns Ok": a message that was handled before the stop took effect answers its caller
    super::c02::handled_call_ok(v, vd, "C04");
    super::c02::errors_after_death(v, vd, "C04");
    abandoned_accepted(v, vd, "C04");
}

/// A call whose future the client polled and then dropped (the losing arm of a `select!`, a client-side
/// timeout) has still *submitted* its message when the first poll could not have waited for room: through
/// `Addr`/`OwningAddr` (forcing lane) always, through `Caller`/`WeakCaller` on an unbounded mailbox.
pub fn accepted_when_abandoned(v: &View, o: &OpRec) -> bool {
    o.what == OpWhat::CallAbandoned
        && matches!(o.res, Some(OpRes::Abandoned))
        && o.actor.is_some_and(|a| match o.via {
            Some(crate::model::HKind::Addr | crate::model::HKind::Owning) => true,
            Some(crate::model::HKind::Caller | crate::model::HKind::WeakCaller) => matches!(v.rt[a].mailbox, crate::model::Mailbox::Unbounded),
            _ => false,
        })
}

/// The mailbox is one FIFO queue: a message that was accepted is not skipped in favour of a message
/// submitted later - whether or not its caller still waits for the answer.
pub fn abandoned_accepted(v: &View, vd: &mut Verdict, prop: &str) {
    for o in v.client_ops().filter(|o| accepted_when_abandoned(v, o)) {
        let a = o.actor.unwrap();
        let id = o.msg.unwrap();
        if !v.inv_of_msg(id).is_empty() {
            vd.class("abandoned_call_handled");
            continue;
        }
        let later = v
            .client_ops()
            .filter(|p| p.actor == Some(a) && p.begin > o.begin && matches!(p.what, OpWhat::Send | OpWhat::Call | OpWhat::CallAbandoned | OpWhat::SendAbandoned))
            .find(|p| p.msg.is_some_and(|m| !v.inv_of_msg(m).is_empty()));
        if let Some(p) = later {
            vd.fail(
                format!("{prop}/abandoned_call_skipped/{:?}", o.via.unwrap()),
                format!("actor {a}: call {id} via {:?} was in the mailbox from {} on (its future was dropped afterwards) and was never handled, but message {:?} submitted later at {} was", o.via, o.begin, p.msg, p.begin),
            );
        }
    }
}

/// the stop-barrier rules; `awaiters` = also the announcement rules (d) and the classes
pub fn barrier(v: &View, vd: &mut Verdict, prop: &str, awaiters: bool) {
    let n = v.actors.len();
    let mut class_a = false;
    let mut class_b = false;
    let mut late_awaiter = false;
    for a in 0..n {
        if v.actors[a].spawned.is_none() {
            continue;
        }
        let av = &v.actors[a];
        // stop requests: client ops and ctx.stop inside handlers (issued = entry of that handler)
        let mut first_issued = u64::MAX;
        let mut first_accepted_returned = u64::MAX;
        for &i in &av.stop_reqs {
            let o = &v.ops[i];
            first_issued = first_issued.min(o.begin);
            if o.ok() {
                if let Some(e) = o.end {
                    first_accepted_returned = first_accepted_returned.min(e);
                }
            }
        }
        for e in v.hist {
            if let EvKind::CtxOp { actor, inv, op: CtxOpKind::Stop, ok } = &e.kind {
                if *actor == a {
                    let issued = inv.and_then(|i| v.invs.iter().find(|x| x.inv == i)).map(|x| x.enter).unwrap_or(e.stamp);
                    first_issued = first_issued.min(issued);
                    if *ok {
                        first_accepted_returned = first_accepted_returned.min(e.stamp);
                    }
                }
            }
        }
        // awaiters of a failed actor get an error / None - every one of them, also late ones
        if awaiters && av.task_end.is_some() && !av.graceful {
            let dead = v.dead_from(a);
            for o in v.client_ops().filter(|o| o.actor == Some(a) && o.end.is_some_and(|e| e > dead)) {
                let bad = match (&o.what, &o.res) {
                    (OpWhat::AwaitClone, Some(r)) => r.is_ok(),
                    (OpWhat::Join, Some(OpRes::Joined(Some(_)))) => true,
                    _ => false,
                };
                if bad {
                    if o.begin > dead {
                        late_awaiter = true;
                    }
                    vd.fail(
                        format!("{prop}/failed_actor_reported_ok/{:?}", o.what),
                        format!("actor {a} failed ({:?}) but client {} op {} {:?} (begun at {}) got {:?}", av.task_end, o.client, o.op, o.what, o.begin, o.res),
                    );
                }
            }
        }
        if first_issued == u64::MAX {
            continue;
        }
        let teardown = v.phase(Phase::Teardown);
        // the barrier is stated "absent failures": a failed actor only has to report its failure to awaiters
        let failed = av.task_end.is_some() && !av.graceful;
        // (a) / (b)
        for o in v.client_ops().filter(|o| o.actor == Some(a) && (matches!(o.what, OpWhat::Send | OpWhat::Call) || accepted_when_abandoned(v, o))) {
            let id = o.msg.unwrap();
            let invs = v.inv_of_msg(id);
            // (an abandoned call that did not have to wait for room was accepted during its first poll)
            let accepted = if o.what == OpWhat::CallAbandoned { o.begin < first_issued } else { o.ok() && o.end.is_some_and(|e| e < first_issued) };
            if accepted && !failed {
                class_a = true;
                // (an invocation that exceeds a configured handler timeout is abandoned half-way: C11's matter)
                let abandoned = v.rt[a].timeout.is_some_and(|(t, _)| v.work_of(id).is_some_and(|w| w.iter().map(|s| if let crate::model::Step::Sleep(x) = s { *x as u64 } else { 0 }).sum::<u64>() > t as u64));
                if invs.is_empty() || (invs[0].exit.is_none() && !abandoned) {
                    vd.fail(
                        format!("{prop}/drain_lost/{:?}", o.what),
                        format!("actor {a}: message {id} ({:?} via {:?}) was accepted at {:?}, before the first stop request was issued at {first_issued}, but was not handled", o.what, o.via, o.end),
                    );
                }
            }
            if first_accepted_returned != u64::MAX && o.begin > first_accepted_returned && o.begin < teardown {
                class_b = true;
                if !invs.is_empty() {
                    vd.fail(
                        format!("{prop}/handled_after_stop/{:?}", o.what),
                        format!("actor {a}: message {id} ({:?} via {:?}) submitted at {} after an accepted stop request had returned at {first_accepted_returned} was handled at {}", o.what, o.via, o.begin, invs[0].enter),
                    );
                }
                if o.what == OpWhat::Call && o.ok() {
                    vd.fail(format!("{prop}/call_ok_after_stop"), format!("actor {a}: call {id} submitted after an accepted stop returned Ok"));
                }
            }
        }
        // a ping submitted after an accepted stop returned sits behind the stop: it cannot be answered
        for o in v.client_ops().filter(|o| o.actor == Some(a) && o.what == OpWhat::Ping) {
            if first_accepted_returned != u64::MAX && o.begin > first_accepted_returned && o.begin < teardown && o.ok() {
                vd.fail(format!("{prop}/ping_ok_after_stop"), format!("actor {a}: ping at {} after an accepted stop request had returned at {first_accepted_returned} returned Ok", o.begin));
            }
        }
        // (c) graceful termination after an accepted stop
        if first_accepted_returned != u64::MAX && !failed {
            let settle = v.phase(Phase::Settle);
            if first_accepted_returned < settle && av.task_end.is_some_and(|(s, _)| s > teardown) && stop_overdue(v, a, teardown) {
                vd.fail(format!("{prop}/no_termination_before_teardown"), format!("actor {a}: a stop request was accepted at {first_accepted_returned} (run phase) but the actor only terminated at {:?}, after the harness had dropped every handle at {teardown}", av.task_end));
            }
            if av.task_end.is_none() {
                vd.fail(format!("{prop}/no_termination"), format!("actor {a}: a stop request was accepted at {first_accepted_returned} but the actor never terminated"));
            } else if !av.graceful {
                vd.fail(format!("{prop}/not_graceful"), format!("actor {a}: accepted stop, but termination was not graceful ({:?}, stopped exit {:?})", av.task_end, av.stopped_exit));
            }
        }
        // (d) awaiters
        if !awaiters {
            continue;
        }
        let Some(stopped_exit) = av.stopped_exit else { continue };
        let dead = v.dead_from(a);
        for o in v.client_ops().filter(|o| o.actor == Some(a)) {
            let Some(end) = o.end else { continue };
            match o.what {
                OpWhat::AwaitClone | OpWhat::Join => {
                    if o.begin > dead {
                        late_awaiter = true;
                    }
                    let resolved_ok = match &o.res {
                        Some(OpRes::Joined(x)) => x.is_some(),
                        Some(r) => r.is_ok(),
                        None => false,
                    };
                    if end < stopped_exit {
                        vd.fail(
                            format!("{prop}/announced_before_stopped/{:?}", o.what),
                            format!("actor {a}: client {} op {} {:?} resolved at {end}, before stopped() finished at {stopped_exit}", o.client, o.op, o.what),
                        );
                    } else if o.what == OpWhat::AwaitClone && resolved_ok != av.graceful {
                        vd.fail(
                            format!("{prop}/await_result/graceful={}", av.graceful),
                            format!("actor {a}: client {} op {} await returned {:?} (graceful={})", o.client, o.op, o.res, av.graceful),
                        );
                    }
                }
                OpWhat::Halt | OpWhat::TryHalt | OpWhat::Consume | OpWhat::ConsumeSync => {
                    let okish = o.ok();
                    if okish && end < stopped_exit {
                        vd.fail(
                            format!("{prop}/announced_before_stopped/{:?}", o.what),
                            format!("actor {a}: client {} op {} {:?} returned Ok at {end}, before stopped() finished at {stopped_exit}", o.client, o.op, o.what),
                        );
                    }
                    // `first_issued` and `alive_until` count this request too: "nothing else had asked" is `<=`
                    // (consume / consume_sync with a value that may have been handed out before: C17's rule)
                    let own = matches!(o.what, OpWhat::Halt | OpWhat::TryHalt) && o.end.is_some() && o.begin == v.alive_until(a).min(first_issued);
                    if (o.begin < v.alive_until(a).min(first_issued) || own) && !okish && av.graceful {
                        vd.fail(
                            format!("{prop}/halt_failed/{:?}", o.what),
                            format!("actor {a}: client {} op {} {:?} began at {} while the actor was alive and nothing else had asked it to stop, but returned {:?}", o.client, o.op, o.what, o.begin, o.res),
                        );
                    }
                }
                _ => {}
            }
        }
    }
    if !awaiters {
        return;
    }
    if class_a {
        vd.class("msg_before_stop");
    }
    if class_b {
        vd.class("msg_after_accepted_stop");
    }
    if late_awaiter {
        vd.class("awaiter_after_termination");
    }
    vd.nontrivial = (class_a && class_b) || late_awaiter;
}

/// An accepted stop request sits in the FIFO mailbox behind whatever was accepted before it, and a
/// stream-attached actor's fair select may prefer stream items for a while: "terminated only after
/// the harness dropped every handle" is a violation only if the actor had been *idle* (no handler or
/// callback running while virtual time advanced) before the teardown with the stop request in its
/// mailbox, or if it handled 48 stream items in a row after its last mailbox payload (2^-48 under
/// the fair tie-break).  A backlog that outlives the settle window is the program's overload.
pub fn stop_overdue(v: &View, a: usize, teardown: u64) -> bool {
    let teardown_time = v.hist.iter().find(|e| e.stamp >= teardown).map(|e| e.time).unwrap_or(u64::MAX);
    // in a lifecycle callback at the teardown (slow started, winding down already)
    if v.cbs.iter().any(|c| c.actor == a && c.enter < teardown && c.exit.is_none_or(|x| x > teardown)) {
        return false;
    }
    if v.cbs.iter().any(|c| c.actor == a && c.cb == Cb::Stopped && c.enter < teardown) {
        return false;
    }
    let mine: Vec<&InvRec> = v.invs.iter().filter(|i| i.actor == a && i.enter < teardown).collect();
    let Some(last) = mine.iter().max_by_key(|i| i.enter) else {
        // nothing handled at all: idle if time passed since the stop was accepted
        return true;
    };
    match last.exit {
        Some(x) if x < teardown => {
            if last.exit_time < teardown_time {
                return true;
            }
        }
        _ => return false, // inside a handler at the teardown
    }
    let last_mailbox = mine.iter().filter(|i| !matches!(i.msg, crate::model::MsgRef::Item(_))).map(|i| i.enter).max().unwrap_or(0);
    mine.iter().filter(|i| i.enter > last_mailbox).count() >= 48
}
