//! One oracle per property.  An oracle looks only at the history (and the case) and reports
//! violations of *its own* property, each with a specific signature.
use std::collections::BTreeSet;

use crate::{analysis::View, interp::RunOutput, model::*};

pub mod c01;
pub mod c02;
pub mod c03;
pub mod c04;
pub mod c05;
pub mod c06;
pub mod c07;
pub mod c08;
pub mod c09;
pub mod c10;
pub mod c11;
pub mod c12;
pub mod c13;
pub mod c14;
pub mod c15;
pub mod c16;
pub mod c17;

#[derive(Clone, Debug, serde::Serialize, serde::Deserialize)]
pub struct Violation {
    /// specific signature: rule + discriminating shape (matched against known_findings.json)
    pub sig: String,
    pub detail: String,
}

#[derive(Clone, Debug, Default)]
pub struct Verdict {
    pub violations: Vec<Violation>,
    /// the family's non-triviality rule holds for this executed case
    pub nontrivial: bool,
    /// class labels for the generator-health histogram
    pub classes: BTreeSet<&'static str>,
    /// the run hit a budget before the oracle's preconditions were met
    pub inconclusive: bool,
}

impl Verdict {
    pub fn fail(&mut self, sig: impl Into<String>, detail: impl Into<String>) {
        self.violations.push(Violation { sig: sig.into(), detail: detail.into() });
    }
    pub fn class(&mut self, c: &'static str) {
        self.classes.insert(c);
    }
}

pub fn check(case: &Case, out: &RunOutput) -> Verdict {
    let v = View::new(case, out);
    let mut vd = Verdict::default();
    if out.flags.inconclusive {
        vd.inconclusive = true;
        vd.class("inconclusive");
        // a run that exhausted its step budget proves nothing - except what has already been observed:
        // a send on an unbounded mailbox that returned Pending (busy-waiting on the queue length
        // never lets virtual time advance, which is exactly how the budget gets exhausted)
        if case.family == Family::C12 {
            c12::unbounded_never_waits(&v, &mut vd);
        }
        return vd;
    }
    common_classes(&v, &mut vd);
    match case.family {
        Family::C01 => c01::check(&v, &mut vd),
        Family::C02 => c02::check(&v, &mut vd),
        Family::C03 => c03::check(&v, &mut vd),
        Family::C04 => c04::check(&v, &mut vd),
        Family::C05 => c05::check(&v, &mut vd),
        Family::C06 => c06::check(&v, &mut vd),
        Family::C07 => c07::check(&v, &mut vd),
        Family::C08 => c08::check(&v, &mut vd),
        Family::C09 => c09::check(&v, &mut vd),
        Family::C10 => c10::check(&v, &mut vd),
        Family::C11 => c11::check(&v, &mut vd),
        Family::C12 => c12::check(&v, &mut vd),
        Family::C13 => c13::check(&v, &mut vd),
        Family::C14 => c14::check(&v, &mut vd),
        Family::C15 => c15::check(&v, &mut vd),
        Family::C16 => c16::check(&v, &mut vd),
        Family::C17 => c17::check(&v, &mut vd),
    }
    // a panic that the harness did not inject (inside the library, or in a client task that called
    // into it) is never an acceptable outcome of an operation; C02 and C06 have their own rule
    if !matches!(case.family, Family::C02 | Family::C06) {
        for (tag, msg) in &v.flags.foreign_panics {
            vd.fail(format!("{}/panic", case.family.id()), format!("task {tag} panicked: {msg}"));
        }
    }
    // an actor never ends unless something could have ended it: a stop request, its last strong handle
    // going, the end of its stream, a failure that the case configures or injects, its parent's end, a
    // registry operation that may have dropped the registry's entry, or the harness' teardown
    for (a, av) in v.actors.iter().enumerate() {
        if let Some((s, end)) = av.task_end {
            if s < v.external_cause(a) && s < v.phase(crate::history::Phase::Teardown) && v.rt[a].origin != crate::history::Origin::Phantom {
                vd.fail(
                    format!("{}/ended_without_cause", case.family.id()),
                    format!("actor {a} ended at {s} with {end:?} although nothing had asked it to (first possible cause: {})", if v.external_cause(a) == u64::MAX { "none".to_string() } else { v.external_cause(a).to_string() }),
                );
            }
        }
    }
    // inconsistencies noticed by the harness itself while it used a handle the library handed out
    for e in v.hist {
        if let crate::history::EvKind::Note(n) = &e.kind {
            if let Some(rest) = n.strip_prefix("INCONSISTENT ") {
                vd.fail(format!("{}/handed_out_handle_inconsistent", case.family.id()), format!("at {}: {rest}", e.stamp));
            }
        }
    }
    vd
}

fn common_classes(v: &View, vd: &mut Verdict) {
    use crate::history::*;
    if v.rt.iter().any(|r| matches!(r.mailbox, Mailbox::Bounded(_))) {
        vd.class("bounded_mailbox");
    }
    if v.client_ops().any(|o| o.polls > 0 && o.what == OpWhat::Send) {
        vd.class("blocked_send");
    }
    if v.cbs.iter().any(|c| c.inc > 0) {
        vd.class("restart");
    }
    if v.invs.iter().any(|i| matches!(i.msg, MsgRef::Tick { .. })) {
        vd.class("tick_handled");
    }
    if v.case.clients.len() > 1 {
        vd.class("multi_client");
    }
    if v.flags.choices > 0 {
        vd.class("schedule_choices");
    }
    if !v.flags.stuck_clients.is_empty() {
        vd.class("stuck_client");
    }
    if v.flags.not_quiescent {
        vd.class("not_quiescent");
    }
}
