//! C13 Stream-attached actors handle every item in order and end with the stream.
use super::Verdict;
use crate::{analysis::*, history::*, model::*, sim::TaskEnd};

pub fn check(v: &View, vd: &mut Verdict) {
    let mut nt = false;
    // stream id -> actor
    let mut stream_actor: std::collections::BTreeMap<usize, ActorId> = Default::default();
    {
        let mut next = 0;
        for (a, rt) in v.rt.iter().enumerate() {
            if rt.stream && v.actors[a].spawned.is_some() {
                stream_actor.insert(next, a);
                next += 1;
            }
        }
    }
    for (sid, &a) in &stream_actor {
        let yielded: Vec<(u64, u32)> = v
            .hist
            .iter()
            .filter_map(|e| match &e.kind {
                EvKind::StreamYield { stream, item } if stream == sid => Some((e.stamp, *item)),
                _ => None,
            })
            .collect();
        let ended = v.hist.iter().find_map(|e| match &e.kind {
            EvKind::StreamEnded { stream } if stream == sid => Some(e.stamp),
            _ => None,
        });
        let handled: Vec<&InvRec> = v.invs.iter().filter(|i| i.actor == a && matches!(i.msg, MsgRef::Item(_))).collect();
        // stream order, exactly once
        let ys: Vec<u32> = yielded.iter().map(|y| y.1).collect();
        if ys.windows(2).any(|w| w[1] != w[0] + 1) || ys.first().is_some_and(|f| *f != 0) {
            vd.fail("C13/harness_stream_order", format!("harness stream yielded {ys:?}"));
        }
        let hs: Vec<u32> = handled.iter().map(|i| if let MsgRef::Item(n) = i.msg { n } else { 0 }).collect();
        if hs != ys {
            vd.fail(
                if hs.len() < ys.len() { "C13/item_lost" } else { "C13/item_order" },
                format!("actor {a}: the stream yielded items {ys:?} to the actor, handled were {hs:?}"),
            );
        }
        // nothing being handled is ever abandoned
        for i in v.invs.iter().filter(|i| i.actor == a) {
            if i.exit.is_none() {
                vd.fail(
                    format!("C13/abandoned/{}", if matches!(i.msg, MsgRef::Item(_)) { "item" } else { "message" }),
                    format!("actor {a}: handler for {:?} entered at {} never completed", i.msg, i.enter),
                );
            }
        }
        // the stream is never polled again after it ended, and its end ends the actor
        if v.hist.iter().any(|e| matches!(&e.kind, EvKind::Note(n) if n == &format!("stream {sid} polled after it had ended"))) {
            vd.fail("C13/stream_polled_after_end", format!("actor {a}: the attached stream was polled again after it had returned None"));
        }
        if let Some(e) = ended {
            if e < v.phase(Phase::Settle) && v.actors[a].task_end.is_none_or(|(s, _)| s > v.phase(Phase::Teardown)) {
                vd.fail("C13/not_ended_with_stream", format!("actor {a}: the stream ended at {e} (run phase) but the actor was still running when the harness dropped every handle at {}", v.phase(Phase::Teardown)));
            }
        }
        // termination protocol
        let av = &v.actors[a];
        let fin: Vec<&CbRec> = v.cbs.iter().filter(|c| c.actor == a && c.cb == Cb::Finished).collect();
        let stp: Vec<&CbRec> = v.cbs.iter().filter(|c| c.actor == a && c.cb == Cb::Stopped).collect();
        let start_failed = v.hist.iter().any(|e| matches!(&e.kind, EvKind::Note(s) if s.starts_with(&format!("started-err actor={a} "))));
        match av.task_end {
            Some((_, TaskEnd::Done)) if !start_failed => {
                if fin.len() != 1 || stp.len() != 1 {
                    vd.fail("C13/end_callbacks", format!("actor {a}: ended with {} finished and {} stopped calls", fin.len(), stp.len()));
                } else if fin[0].exit.is_none_or(|x| x > stp[0].enter) {
                    vd.fail("C13/finished_after_stopped", format!("actor {a}: finished {:?}..{:?}, stopped entered at {}", fin[0].enter, fin[0].exit, stp[0].enter));
                }
                for o in v.client_ops().filter(|o| o.actor == Some(a) && o.what == OpWhat::AwaitClone && o.end.is_some()) {
                    if !o.ok() {
                        vd.fail("C13/await_err", format!("actor {a}: ended gracefully but awaiting the address returned {:?}", o.res));
                    }
                }
            }
            None => {
                // an accepted stop, the end of the stream or the last drop must end it
                let stop_ok = av.stop_reqs.iter().any(|i| v.ops[*i].ok());
                vd.fail(
                    format!("C13/never_ended/stop={stop_ok}/stream_ended={}", ended.is_some()),
                    format!("actor {a}: still alive at the end although every strong handle was dropped (accepted stop: {stop_ok}, stream ended: {})", ended.is_some()),
                );
            }
            _ => {}
        }
        // a queued message is not starved by a burst of items (each iteration of the loop chooses at
        // random between a ready mailbox and a ready stream: 48 items in a row has probability 2^-48)
        for o in v.client_ops().filter(|o| o.actor == Some(a) && matches!(o.what, OpWhat::Send | OpWhat::Call) && o.msg.is_some()) {
            let Some(inv) = v.inv_of_msg(o.msg.unwrap()).into_iter().next() else { continue };
            // items entered after the message was certainly in the mailbox (send returned / call was pending one event later)
            let queued_from = o.end.filter(|_| o.what == OpWhat::Send).unwrap_or(o.begin + 2);
            // ... and was at the head of the (FIFO) mailbox: after the previous mailbox-sourced invocation
            let pred = v.invs.iter().filter(|i| i.actor == a && !matches!(i.msg, MsgRef::Item(_)) && i.enter < inv.enter).map(|i| i.enter).max().unwrap_or(0);
            let from = queued_from.max(pred);
            let items_between = handled.iter().filter(|i| i.enter > from && i.enter < inv.enter).count();
            if items_between >= 48 {
                vd.fail("C13/message_starved_by_items", format!("actor {a}: message {} was at the head of the mailbox from {from} on, but {items_between} stream items in a row were handled before it at {}", o.msg.unwrap(), inv.enter));
            }
        }
        // ... and neither is an accepted stop request: from the moment it is in the mailbox the mailbox
        // arm of the select is ready in every round until the loop is left
        {
            let mut since = u64::MAX;
            for &i in &av.stop_reqs {
                let o = &v.ops[i];
                let s = match o.what {
                    OpWhat::Stop | OpWhat::TryStop if o.ok() => o.end.unwrap_or(u64::MAX),
                    OpWhat::Halt | OpWhat::TryHalt | OpWhat::Consume | OpWhat::ConsumeSync if o.was_pending || o.ok() => o.begin + 2,
                    _ => u64::MAX,
                };
                since = since.min(s);
            }
            for e in v.hist {
                if let EvKind::CtxOp { actor, op: CtxOpKind::Stop, ok: true, .. } = &e.kind {
                    if *actor == a {
                        since = since.min(e.stamp);
                    }
                }
            }
            if since != u64::MAX {
                let mut run = 0usize;
                let mut worst = 0usize;
                let mut mine: Vec<&InvRec> = v.invs.iter().filter(|i| i.actor == a && i.enter > since).collect();
                mine.sort_by_key(|i| i.enter);
                for i in mine {
                    if matches!(i.msg, MsgRef::Item(_)) {
                        run += 1;
                        worst = worst.max(run);
                    } else {
                        run = 0;
                    }
                }
                if worst >= 48 {
                    vd.fail("C13/stop_starved_by_items", format!("actor {a}: a stop request was in the mailbox from {since} on, yet {worst} stream items in a row were handled afterwards before the loop looked at the mailbox"));
                }
            }
        }
        // classes
        let msgs = v.invs.iter().any(|i| i.actor == a && matches!(i.msg, MsgRef::Client(_)));
        if !handled.is_empty() && msgs {
            vd.class("items_and_messages");
        }
        let end_with_pending_stream = av.task_end.is_some_and(|(s, _)| s < v.phase(Phase::Teardown)) && ended.is_none();
        if end_with_pending_stream {
            vd.class("ended_while_stream_pending");
        }
        if ended.is_some() {
            vd.class("stream_ended");
        }
        if !handled.is_empty() && msgs && end_with_pending_stream {
            nt = true;
        }
    }
    super::c01::order(v, vd, "C13");
    super::c04::abandoned_accepted(v, vd, "C13");
    // an explicit stop terminates it (and is a barrier) even if the stream never ends
    // (only when the stream did not end: the end of the stream terminates the actor on its own)
    let stream_over = v.hist.iter().any(|e| matches!(e.kind, EvKind::StreamEnded { .. })) || v.client_ops().any(|o| o.what == OpWhat::EndStream);
    if !stream_over {
        super::c04::barrier(v, vd, "C13", false);
    }
    vd.nontrivial = nt;
}

/// From the moment an accepted stop request is in the mailbox the mailbox arm of the fair select is ready
/// in every round: 48 stream items in a row afterwards mean that it was not looked at (for other families
/// that run stream-attached actors)
pub fn stop_starved(v: &View, vd: &mut Verdict, prop: &str) {
    for a in 0..v.actors.len() {
        if v.actors[a].spawned.is_none() || !v.rt[a].stream {
            continue;
        }
        let av = &v.actors[a];
        let mut since = u64::MAX;
        for &i in &av.stop_reqs {
            let o = &v.ops[i];
            let s = match o.what {
                OpWhat::Stop | OpWhat::TryStop if o.ok() => o.end.unwrap_or(u64::MAX),
                OpWhat::Halt | OpWhat::TryHalt | OpWhat::Consume | OpWhat::ConsumeSync if o.was_pending || o.ok() => o.begin + 2,
                _ => u64::MAX,
            };
            since = since.min(s);
        }
        for e in v.hist {
            if let EvKind::CtxOp { actor, op: CtxOpKind::Stop, ok: true, .. } = &e.kind {
                if *actor == a {
                    since = since.min(e.stamp);
                }
            }
        }
        if since == u64::MAX {
            continue;
        }
        let mut mine: Vec<&InvRec> = v.invs.iter().filter(|i| i.actor == a && i.enter > since).collect();
        mine.sort_by_key(|i| i.enter);
        let (mut run, mut worst) = (0usize, 0usize);
        for i in mine {
            if matches!(i.msg, MsgRef::Item(_)) {
                run += 1;
                worst = worst.max(run);
            } else {
                run = 0;
            }
        }
        if worst >= 48 {
            vd.fail(format!("{prop}/stop_starved_by_items"), format!("actor {a}: a stop request was in the mailbox from {since} on, yet {worst} stream items in a row were handled afterwards before the loop looked at the mailbox"));
        }
    }
}
