//! C06 Failure of one actor is contained and visible as errors, never as hangs.
//! The target of the injected fault is actor 0 (T); the bystander (if any) holds T as its peer.
use super::Verdict;
use crate::{analysis::*, history::*, model::*, sim::{TaskEnd, TaskTag}};

pub fn check(v: &View, vd: &mut Verdict) {
    let t = 0usize;
    if v.actors.is_empty() || v.actors[t].spawned.is_none() {
        return;
    }
    let av = &v.actors[t];
    let teardown = v.phase(Phase::Teardown);
    let died = match av.task_end {
        Some((s, end)) if s < teardown => !(end == TaskEnd::Done && av.graceful),
        _ => false,
    };
    if !v.case.faults.is_empty() {
        vd.class("fault_injected");
    }
    if !died {
        // the fault did not fire (position beyond the run) or the program is fault free
        if av.task_end.is_none() && !v.flags.stuck_clients.is_empty() {
            vd.class("target_survived");
        }
        super::c02::resolves(v, vd, "C06");
        vd.violations.retain(|x| !x.sig.starts_with("C06/hang") || v.case.faults.is_empty());
        return;
    }
    let (d, end) = av.task_end.unwrap();
    vd.class(match end {
        TaskEnd::Done => "died_failed_result",
        TaskEnd::Panicked { .. } => "died_panicked",
        TaskEnd::Cancelled => "died_cancelled",
    });
    // --- every pending and future operation on T resolves with an error
    for o in v.client_ops().filter(|o| o.actor == Some(t)) {
        let Some(e) = o.end else {
            if matches!(o.what, OpWhat::Send | OpWhat::Call | OpWhat::Ping | OpWhat::Stop | OpWhat::Halt | OpWhat::TryStop | OpWhat::TryHalt | OpWhat::AwaitClone | OpWhat::Join | OpWhat::Consume | OpWhat::ConsumeSync) {
                vd.fail(format!("C06/hang/{:?}/via={:?}", o.what, o.via), format!("T died at {d} ({end:?}); client {} op {} {:?} via {:?} begun at {} never resolved", o.client, o.op, o.what, o.via, o.begin));
            }
            continue;
        };
        let pending_at_death = o.begin < d && e > d;
        let later = o.begin > d;
        if !(pending_at_death || later) {
            continue;
        }
        match o.what {
            OpWhat::Call | OpWhat::Ping => {
                let handled = o.what == OpWhat::Call && o.msg.is_some_and(|m| v.inv_of_msg(m).iter().any(|i| i.exit.is_some()));
                // a ping that was pending at the moment of death may have been answered just before
                let maybe_answered = o.what == OpWhat::Ping && pending_at_death;
                if !o.err() && !handled && !maybe_answered {
                    vd.fail(format!("C06/ok_on_dead/{:?}/via={:?}", o.what, o.via), format!("T died at {d}; client {} op {} {:?} via {:?} ({}..{e}) returned {:?}", o.client, o.op, o.what, o.via, o.begin, o.res));
                }
            }
            OpWhat::Send | OpWhat::Stop | OpWhat::TryStop | OpWhat::Halt | OpWhat::TryHalt | OpWhat::Restart => {
                if later && !o.err() {
                    vd.fail(format!("C06/ok_on_dead/{:?}/via={:?}", o.what, o.via), format!("T died at {d}; client {} op {} {:?} via {:?} begun at {} returned {:?}", o.client, o.op, o.what, o.via, o.begin, o.res));
                }
            }
            OpWhat::AwaitClone => {
                if o.ok() {
                    vd.fail("C06/await_ok", format!("T died at {d} ({end:?}) but awaiting its address (client {} op {}) returned Ok", o.client, o.op));
                }
            }
            OpWhat::Join | OpWhat::Consume | OpWhat::ConsumeSync => {
                if matches!(o.res, Some(OpRes::Joined(Some(_)))) {
                    vd.fail(format!("C06/join_some/{:?}", o.what), format!("T died at {d} ({end:?}) but {:?} (client {} op {}) returned the actor value", o.what, o.client, o.op));
                }
            }
            _ => {}
        }
    }
    // --- nothing of T runs after its death; its timers stop
    for e in v.hist.iter().filter(|e| e.stamp > d) {
        match &e.kind {
            EvKind::Cb { actor, cb, .. } if *actor == t => vd.fail("C06/callback_after_death", format!("T died at {d}; {cb:?} ran at {}", e.stamp)),
            EvKind::HEnter { actor, msg, .. } if *actor == t => vd.fail("C06/handler_after_death", format!("T died at {d}; {msg:?} handled at {}", e.stamp)),
            EvKind::TickCreated { actor, timer, .. } if *actor == t => vd.fail("C06/tick_after_death", format!("T died at {d}; timer {timer} produced a tick at {}", e.stamp)),
            EvKind::DelayedRan { actor, timer } if *actor == t => vd.fail("C06/delayed_exec_after_death", format!("T died at {d}; delayed_exec timer {timer} ran at {}", e.stamp)),
            _ => {}
        }
    }
    for (i, tk) in v.tasks.iter().enumerate() {
        if tk.end.is_none() {
            match tk.tag {
                TaskTag::Timer { actor, timer } if actor == t => vd.fail("C06/timer_leaked", format!("T died at {d}; its timer task {i} (timer {timer}) is still alive at the end")),
                TaskTag::Actor(a) => vd.fail("C06/actor_leaked", format!("actor {a} is still alive at the end")),
                _ => {}
            }
        }
    }
    // --- children are released and stop gracefully
    let mut had_children = false;
    for (s, spec) in v.case.actors.iter().enumerate() {
        let Some(ch) = spec.parent else { continue };
        if ch.parent != t || v.actors[s].spawned.is_none() {
            continue;
        }
        had_children = true;
        if ch.outside {
            continue;
        }
        match v.actors[s].task_end {
            None => vd.fail("C06/child_not_released", format!("T died at {d}; child {s} is still alive at the end")),
            Some((cs, ce)) => {
                if !(ce == TaskEnd::Done && v.actors[s].graceful) {
                    vd.fail("C06/child_not_graceful", format!("T died at {d}; child {s} ended with {ce:?} at {cs}"));
                }
            }
        }
    }
    // --- the registry treats it as not running
    let registered = matches!(v.case.actors[t].spawn, SpawnSpec::Register { .. });
    if registered {
        let kind = v.case.actors[t].kind;
        let mut regs: Vec<&OpRec> = v.ops.iter().filter(|o| matches!(o.what, OpWhat::Reg(_, k) if k == kind)).collect();
        regs.sort_by_key(|o| o.begin);
        // only until the first operation that changes the registration
        for o in regs {
            let OpWhat::Reg(rop, _) = o.what else { continue };
            if o.begin < d {
                if matches!(rop, RegOp::Register | RegOp::Replace | RegOp::Unregister) {
                    break;
                }
                // a lookup that was still in flight when T died may have respawned the service
                if matches!(rop, RegOp::FromRegistry | RegOp::Setup) && o.end_or_max() > d {
                    break;
                }
                continue;
            }
            vd.class("registry_op_after_death");
            match (&rop, &o.res) {
                (RegOp::AlreadyRunning, Some(OpRes::Reg(RegRes::Running(Some(true))))) => vd.fail("C06/registry_says_running", format!("T died at {d}; already_running at {} says Some(true)", o.begin)),
                (RegOp::TryFromRegistry, Some(OpRes::Reg(RegRes::TryGot(Some(id))))) => vd.fail("C06/registry_returns_dead/try_from_registry", format!("T died at {d}; try_from_registry at {} returned {id:?}", o.begin)),
                (RegOp::FromRegistry, Some(OpRes::Reg(RegRes::Got(id)))) => match id {
                    Ident::Live { actor, .. } if *actor != t => {}
                    // a fresh instance was spawned by this lookup but somebody stopped it before it could be identified
                    Ident::Dead { .. }
                        if v.hist.iter().any(|e| {
                            e.stamp > o.begin && e.stamp < o.end_or_max() && matches!(&e.kind, EvKind::ActorNew { origin: Origin::Default, .. })
                        }) => {}
                    other => vd.fail("C06/registry_returns_dead/from_registry", format!("T died at {d}; from_registry at {} returned {other:?}", o.begin)),
                },
                // setup() after the death must have respawned the service: the next registry operation (if
                // nothing else touched the registry in between) finds a running instance
                (RegOp::Setup, Some(_)) => {
                    if let Some(e1) = o.end {
                        let all: Vec<&OpRec> = v.ops.iter().filter(|p| matches!(p.what, OpWhat::Reg(_, k) if k == kind)).collect();
                        if let Some(o2) = all.iter().filter(|p| p.begin > e1).min_by_key(|p| p.begin) {
                            let quiet = !all.iter().any(|p| (p.client, p.op) != (o.client, o.op) && (p.client, p.op) != (o2.client, o2.op) && p.begin < o2.end_or_max() && p.end_or_max() > d);
                            if quiet {
                                match (&o2.what, &o2.res) {
                                    (OpWhat::Reg(RegOp::AlreadyRunning, _), Some(OpRes::Reg(RegRes::Running(r)))) if *r != Some(true) => {
                                        vd.fail("C06/setup_did_not_respawn", format!("T died at {d}; setup() completed at {e1}, yet already_running at {} says {r:?}", o2.begin))
                                    }
                                    (OpWhat::Reg(RegOp::TryFromRegistry, _), Some(OpRes::Reg(RegRes::TryGot(None)))) => {
                                        vd.fail("C06/setup_did_not_respawn", format!("T died at {d}; setup() completed at {e1}, yet try_from_registry at {} found nothing", o2.begin))
                                    }
                                    _ => {}
                                }
                            }
                        }
                    }
                }
                _ => {}
            }
            break;
        }
    }
    // --- bystanders keep working and observe nothing but errors
    for (b, spec) in v.case.actors.iter().enumerate() {
        if spec.peer != Some(t) || v.actors[b].spawned.is_none() {
            continue;
        }
        for e in v.hist {
            if let EvKind::PeerCall { actor, inv, ok, .. } = &e.kind {
                if *actor != b {
                    continue;
                }
                let started_at = inv.and_then(|i| v.invs.iter().find(|x| x.inv == i)).map(|x| x.enter).unwrap_or(e.stamp);
                if started_at > d && *ok {
                    vd.fail("C06/bystander_call_ok", format!("T died at {d}; bystander {b} called it at {started_at} and got Ok"));
                }
                if started_at > d {
                    vd.class("bystander_saw_error");
                }
            }
        }
        if let Some((s, e)) = v.actors[b].task_end {
            if s < teardown && s < v.alive_until(b) {
                vd.fail("C06/bystander_died", format!("T died at {d}; bystander {b} ended at {s} with {e:?} although nobody stopped it"));
            }
        }
        for o in v.client_ops().filter(|o| o.actor == Some(b) && o.begin > d && o.begin < teardown && o.end.is_some()) {
            if matches!(o.what, OpWhat::Call | OpWhat::Ping | OpWhat::Send) && !o.ok() && o.begin < v.alive_until(b) {
                vd.fail(format!("C06/bystander_op_failed/{:?}", o.what), format!("T died at {d}; {:?} on bystander {b} at {} returned {:?}", o.what, o.begin, o.res));
            }
        }
        for o in v.client_ops().filter(|o| o.actor == Some(b) && o.end.is_none() && matches!(o.what, OpWhat::Call | OpWhat::Ping | OpWhat::Send)) {
            vd.fail(format!("C06/bystander_hang/{:?}", o.what), format!("T died at {d}; {:?} on bystander {b} begun at {} never returned", o.what, o.begin));
        }
    }
    super::c10::delayed_body_outlives_actor(v, vd, "C06");
    for (tag, msg) in &v.flags.foreign_panics {
        vd.fail("C06/panic", format!("task {tag} panicked: {msg}"));
    }
    let pending = v.client_ops().any(|o| o.actor == Some(t) && o.begin < d && o.end_or_max() > d);
    let had_timers = v.hist.iter().any(|e| matches!(&e.kind, EvKind::TimerReg { actor, .. } if *actor == t && e.stamp < d));
    if pending {
        vd.class("op_pending_at_death");
    }
    if had_children {
        vd.class("died_holding_children");
    }
    if had_timers {
        vd.class("died_with_timers");
    }
    vd.nontrivial = pending || had_children || had_timers;
}
