//! C12 A bounded mailbox exerts backpressure on send; unbounded and stop never wait.
use super::Verdict;
use crate::{analysis::*, history::*, model::*};

/// the part of the check that is meaningful on a run cut by the step budget
pub fn unbounded_never_waits(v: &View, vd: &mut Verdict) {
    for a in 0..v.actors.len() {
        if v.actors[a].spawned.is_none() || v.rt[a].mailbox != Mailbox::Unbounded {
            continue;
        }
        for s in v.client_ops().filter(|o| o.actor == Some(a) && o.what == OpWhat::Send) {
            if (s.polls > 0 || s.was_pending) && s.begin < v.alive_until(a) {
                vd.fail(
                    format!("C12/unbounded_send_waited/via={:?}", s.via),
                    format!("actor {a} (unbounded): send of message {} via {:?} returned Pending", s.msg.unwrap(), s.via),
                );
            }
        }
    }
}

pub fn check(v: &View, vd: &mut Verdict) {
    let mut blocked_resolved = false;
    for a in 0..v.actors.len() {
        if v.actors[a].spawned.is_none() {
            continue;
        }
        // a stop request never waits for mailbox space - nor is it refused for lack of it: while the actor
        // task exists its mailbox is open, and a stop through a strong handle goes in
        for o in v.client_ops().filter(|o| o.actor == Some(a) && o.what == OpWhat::Stop && matches!(o.via, Some(HKind::Addr | HKind::Owning))) {
            if o.err() && o.end.is_some_and(|e| e < v.dead_from(a)) {
                vd.fail(
                    format!("C12/stop_refused/{:?}", v.rt[a].mailbox),
                    format!("actor {a}: stop at {} returned {:?} although the actor task was still there (it ended at {:?})", o.begin, o.res, v.actors[a].task_end),
                );
            }
        }
        let sends: Vec<&OpRec> = v.client_ops().filter(|o| o.actor == Some(a) && o.what == OpWhat::Send).collect();
        // the loop stops taking messages out when it leaves the receive loop
        let stopped_enter = v.cbs.iter().filter(|c| c.actor == a && matches!(c.cb, Cb::Stopped | Cb::Finished)).map(|c| c.enter).min().unwrap_or(u64::MAX);
        let horizon = stopped_enter.min(v.dead_from(a));
        let enter_of = |o: &OpRec| v.invs.iter().find(|i| i.msg == MsgRef::Client(o.msg.unwrap())).map(|i| i.enter).unwrap_or(u64::MAX);
        match v.rt[a].mailbox {
            Mailbox::Bounded(n) => {
                for s in &sends {
                    let Some(now) = s.end else { continue };
                    if !s.ok() || now >= horizon {
                        continue;
                    }
                    if s.polls > 0 {
                        blocked_resolved = true;
                    }
                    // sends that have returned Ok by `now` and whose message has not been taken out yet
                    let behind: Vec<u32> = sends
                        .iter()
                        .filter(|m| m.ok() && m.end.is_some_and(|e| e <= now) && enter_of(m) > now)
                        .map(|m| m.msg.unwrap())
                        .collect();
                    if behind.len() > n as usize {
                        vd.fail(
                            format!("C12/over_capacity/n={n}"),
                            format!("actor {a} (bounded {n}): when send of message {} returned Ok at {now}, {} sends had returned without their message having been taken out: {behind:?}", s.msg.unwrap(), behind.len()),
                        );
                        break;
                    }
                }
            }
            Mailbox::Unbounded => {
                for s in &sends {
                    if (s.polls > 0 || s.was_pending) && s.begin < v.alive_until(a) {
                        vd.fail(
                            format!("C12/unbounded_send_waited/via={:?}", s.via),
                            format!("actor {a} (unbounded): send of message {} via {:?} was pending for {} polls", s.msg.unwrap(), s.via, s.polls),
                        );
                    }
                }
            }
        }
        // every send resolves
        for s in &sends {
            if s.end.is_none() {
                vd.fail(
                    format!("C12/send_never_returned/via={:?}", s.via),
                    format!("actor {a}: send of message {} via {:?} began at {} and never returned", s.msg.unwrap(), s.via, s.begin),
                );
            }
        }
        // a stop request never waits for mailbox space and is accepted while the actor is alive
        for o in v.client_ops().filter(|o| o.actor == Some(a) && matches!(o.what, OpWhat::Stop | OpWhat::TryStop)) {
            if o.begin < v.alive_until(a) && !o.ok() {
                vd.fail(
                    format!("C12/stop_rejected/{:?}", o.what),
                    format!("actor {a}: {:?} at {} on a live actor returned {:?}", o.what, o.begin, o.res),
                );
            }
            if o.ok() {
                vd.class("stop_accepted");
                let queued = sends.iter().filter(|m| m.begin < o.begin && enter_of(m) > o.begin).count();
                if let Mailbox::Bounded(n) = v.rt[a].mailbox {
                    if queued > n as usize {
                        vd.class("stop_while_over_capacity");
                    }
                }
            }
        }
    }
    if blocked_resolved {
        vd.class("blocked_send_resolved");
    }
    vd.nontrivial = blocked_resolved;
}
