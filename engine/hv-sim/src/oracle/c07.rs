//! C07 Restart keeps identity and mailbox and yields a freshly started incarnation.
use super::Verdict;
use crate::{analysis::*, history::*, model::*};

pub fn check(v: &View, vd: &mut Verdict) {
    let mut nt = false;
    super::c10::timer_died_early(v, vd, "C07");
    for a in 0..v.actors.len() {
        if v.actors[a].spawned.is_none() || v.rt[a].origin == Origin::Phantom || v.rt[a].stream {
            continue;
        }
        let strategy = v.rt[a].strategy;
        // all restart requests are synchronous calls, hence totally ordered by stamp
        let mut reqs: Vec<(u64, u64)> = vec![]; // (issued stamp, returned stamp) of accepted requests
        for o in v.client_ops().filter(|o| o.actor == Some(a) && o.what == OpWhat::Restart && o.ok()) {
            reqs.push((o.begin, o.end.unwrap()));
        }
        for e in v.hist {
            if let EvKind::CtxOp { actor, op: CtxOpKind::Restart, ok: true, .. } = &e.kind {
                if *actor == a {
                    reqs.push((e.stamp.saturating_sub(1), e.stamp));
                }
            }
        }
        reqs.sort();
        let starts: Vec<&CbRec> = v.cbs.iter().filter(|c| c.actor == a && c.cb == Cb::Started).collect();
        let stops: Vec<&CbRec> = v.cbs.iter().filter(|c| c.actor == a && c.cb == Cb::Stopped).collect();
        let incarnations = starts.len();
        if incarnations == 0 {
            continue;
        }
        // no spurious restarts
        if incarnations - 1 > reqs.len() {
            vd.fail("C07/spurious_restart", format!("actor {a}: {} incarnations but only {} accepted restart requests", incarnations, reqs.len()));
        }
        if strategy == RStrat::NonRestartable && incarnations > 1 {
            vd.fail("C07/nonrestartable_restarted", format!("actor {a}: non-restartable spawn went through {incarnations} incarnations"));
        }
        // a restart request is never a reason to terminate: ignored (non-restartable) or followed by a new
        // incarnation; an actor that ends although nothing else could have ended it, with restart requests
        // accepted before, was killed by one of them
        if let Some((s, end)) = v.actors[a].task_end {
            if s < v.external_cause(a) && s < v.phase(Phase::Teardown) && reqs.iter().any(|(_, ret)| *ret < s) {
                vd.fail(
                    format!("C07/ended_by_restart/{strategy:?}"),
                    format!("actor {a} ({strategy:?}): ended at {s} with {end:?} although nothing but restart requests ({} accepted) had been addressed to it", reqs.len()),
                );
            }
        }
        // (c) callback / value discipline per processed restart
        for k in 1..incarnations {
            let s = starts[k];
            let prev_start = starts[k - 1];
            // the stopped call of incarnation k-1
            let stop = stops.iter().find(|c| c.inc == prev_start.inc && c.enter > prev_start.enter && c.enter < s.enter);
            match stop {
                None => vd.fail("C07/restart_without_stopped", format!("actor {a}: incarnation {} started at {} without stopped() on the previous one", s.inc, s.enter)),
                Some(st) => {
                    if st.exit.is_none_or(|x| x > s.enter) {
                        vd.fail("C07/restart_overlap", format!("actor {a}: started of incarnation {} began before stopped of the previous one finished", s.inc));
                    }
                    if st.value != prev_start.value {
                        vd.fail("C07/stopped_wrong_value", format!("actor {a}: stopped() before restart ran on value {} but incarnation {} was value {}", st.value, prev_start.inc, prev_start.value));
                    }
                }
            }
            match strategy {
                RStrat::Default => {
                    if s.value != prev_start.value {
                        vd.fail("C07/default_changed_value", format!("actor {a}: default strategy, but incarnation {} runs on value {} instead of {}", s.inc, s.value, prev_start.value));
                    }
                }
                RStrat::Recreate => {
                    if starts[..k].iter().any(|p| p.value == s.value) {
                        vd.fail("C07/recreate_kept_value", format!("actor {a}: recreate-from-default, but incarnation {} runs on the old value {}", s.inc, s.value));
                    }
                }
                RStrat::NonRestartable => {}
            }
        }
        // (b) messages before / after the i-th request are handled by the incarnation before / after it
        let restartable = strategy != RStrat::NonRestartable;
        for o in v.client_ops().filter(|o| o.actor == Some(a) && matches!(o.what, OpWhat::Send | OpWhat::Call)) {
            let Some(inv) = v.inv_of_msg(o.msg.unwrap()).into_iter().next() else { continue };
            for (i, (issued, returned)) in reqs.iter().enumerate() {
                let new_inc = (i + 1) as u32;
                if !restartable {
                    break;
                }
                if o.ok() && o.end.is_some_and(|e| e < *issued) {
                    if incarnations > i + 1 {
                        nt = true;
                    }
                    if inv.inc >= new_inc {
                        vd.fail(
                            "C07/old_message_in_new_incarnation",
                            format!("actor {a}: message {} was accepted at {:?}, before restart request #{} was issued at {issued}, but was handled by incarnation {}", o.msg.unwrap(), o.end, i + 1, inv.inc),
                        );
                    }
                }
                if o.begin > *returned && inv.inc < new_inc {
                    vd.fail(
                        "C07/new_message_in_old_incarnation",
                        format!("actor {a}: message {} was submitted at {} after restart request #{} had returned at {returned}, but was handled by incarnation {}", o.msg.unwrap(), o.begin, i + 1, inv.inc),
                    );
                }
            }
        }
        // (d) started error during restart terminates the actor as failed
        let failed_restart = v.hist.iter().any(|e| matches!(&e.kind, EvKind::Note(s) if s.starts_with(&format!("started-err actor={a} ")) && !s.ends_with("inc=0")));
        if failed_restart {
            vd.class("start_error_in_restart");
            if v.actors[a].task_end.is_none() {
                vd.fail("C07/failed_restart_alive", format!("actor {a}: started failed during a restart but the actor did not terminate"));
            }
            for o in v.client_ops().filter(|o| o.actor == Some(a) && o.end.is_some()) {
                let bad = match (&o.what, &o.res) {
                    (OpWhat::AwaitClone, Some(r)) => r.is_ok(),
                    (OpWhat::Join, Some(OpRes::Joined(Some(_)))) => true,
                    _ => false,
                };
                if bad {
                    vd.fail("C07/failed_restart_not_failed", format!("actor {a}: started failed during a restart but client {} op {} {:?} got {:?}", o.client, o.op, o.what, o.res));
                }
            }
        }
        // (e) timers of earlier incarnations no longer fire
        if restartable {
            let mut reg_inc: std::collections::BTreeMap<usize, u32> = Default::default();
            for e in v.hist {
                match &e.kind {
                    EvKind::TimerReg { actor, timer, inc, .. } if *actor == a => {
                        reg_inc.insert(*timer, *inc);
                        if incarnations as u32 > *inc + 1 {
                            nt = true;
                            vd.class("timer_registered_before_restart");
                        }
                    }
                    EvKind::TickCreated { actor, timer, n } if *actor == a => {
                        let Some(ri) = reg_inc.get(timer) else { continue };
                        // incarnation current at this stamp
                        let cur = starts.iter().filter(|s| s.enter < e.stamp).map(|s| s.inc).max().unwrap_or(0);
                        if cur > *ri {
                            let kind = v.hist.iter().find_map(|x| match &x.kind {
                                EvKind::TimerReg { timer: t, kind, .. } if t == timer => Some(*kind),
                                _ => None,
                            });
                            vd.fail(
                                format!("C07/stale_timer/{:?}", kind.unwrap_or(TimerKind::Interval)),
                                format!("actor {a}: timer {timer} registered in incarnation {ri} produced tick {n} at {} (t={}) while incarnation {cur} was running", e.stamp, e.time),
                            );
                        }
                    }
                    EvKind::DelayedRan { actor, timer } if *actor == a => {
                        let Some(ri) = reg_inc.get(timer) else { continue };
                        let cur = starts.iter().filter(|s| s.enter < e.stamp).map(|s| s.inc).max().unwrap_or(0);
                        if cur > *ri {
                            vd.fail("C07/stale_timer/DelayedExec", format!("actor {a}: delayed_exec timer {timer} registered in incarnation {ri} ran at {} while incarnation {cur} was running", e.stamp));
                        }
                    }
                    _ => {}
                }
            }
        }
        if incarnations > 1 {
            vd.class("restart_processed");
        }
        match strategy {
            RStrat::Default => vd.class("strategy_default"),
            RStrat::Recreate => vd.class("strategy_recreate"),
            RStrat::NonRestartable => vd.class("strategy_nonrestartable"),
        }
    }
    super::c01::order(v, vd, "C07");
    vd.nontrivial = nt;
}
