//! C14 stopped() / running() tell the truth without anyone awaiting the actor.
use super::Verdict;
use crate::{analysis::*, history::*, model::*};

/// has any operation that polls the shared termination future of `a` completed before `stamp`?
fn awaited_before(v: &View, a: ActorId, stamp: u64) -> bool {
    v.client_ops().any(|o| {
        o.actor == Some(a)
            && matches!(o.what, OpWhat::AwaitClone | OpWhat::Halt | OpWhat::TryHalt)
            && o.begin < stamp
    })
}

pub fn check(v: &View, vd: &mut Verdict) {
    let mut nt = false;
    for o in v.client_ops().filter(|o| matches!(o.what, OpWhat::QueryStopped | OpWhat::QueryRunning)) {
        let Some(a) = o.actor else { continue };
        let Some(OpRes::Bool(b)) = o.res else { continue };
        let says_stopped = if o.what == OpWhat::QueryStopped { b } else { !b };
        let awaited = awaited_before(v, a, o.begin);
        // the termination is only announced once the stopped() hook has finished
        if says_stopped && v.actors[a].graceful {
            if let Some(x) = v.actors[a].stopped_exit {
                if o.end.is_some_and(|e| e < x) {
                    vd.fail(
                        format!("C14/stopped_before_hook_finished/{:?}/via={:?}", o.what, o.via.unwrap()),
                        format!("actor {a}: {:?} on a {:?} at {} says it has stopped, but its stopped() callback only finished at {x}", o.what, o.via, o.begin),
                    );
                }
            }
        }
        if o.begin > v.dead_from(a) {
            if !awaited {
                nt = true;
                vd.class("query_after_unawaited_termination");
            } else {
                vd.class("query_after_awaited_termination");
            }
            if !says_stopped {
                vd.fail(
                    format!("C14/stale_running/{:?}/via={:?}/awaited={awaited}", o.what, o.via.unwrap()),
                    format!("actor {a} ended at {}; {:?} on a {:?} at {} still says it is running (somebody awaited it before: {awaited})", v.dead_from(a), o.what, o.via, o.begin),
                );
            }
        } else if o.begin < v.alive_until(a) {
            vd.class("query_while_alive");
            if says_stopped {
                vd.fail(
                    format!("C14/premature_stopped/{:?}/via={:?}", o.what, o.via.unwrap()),
                    format!("actor {a} is alive (first termination cause at {}), but {:?} on a {:?} at {} says it has stopped", v.alive_until(a), o.what, o.via, o.begin),
                );
            }
        }
    }
    // registry reactions: client 0 is the only task doing registry operations -> sequential model
    for kind in 0u8..2 {
        let mut reg: Option<ActorId> = None;
        for (slot, spec) in v.case.actors.iter().enumerate() {
            if spec.kind == kind && matches!(spec.spawn, SpawnSpec::Register { .. }) {
                let ok = v.hist.iter().any(|e| matches!(&e.kind, EvKind::Note(s) if s == &format!("setup-register actor={slot} ok=true")));
                if ok {
                    reg = Some(slot);
                }
            }
        }
        let mut ops: Vec<&OpRec> = v.ops.iter().filter(|o| matches!(o.what, OpWhat::Reg(_, k) if k == kind)).collect();
        ops.sort_by_key(|o| o.begin);
        let overlapping = ops.windows(2).any(|w| w[0].end_or_max() > w[1].begin);
        if overlapping {
            continue;
        }
        for (idx, o) in ops.iter().enumerate() {
            let OpWhat::Reg(rop, _) = o.what else { continue };
            let Some(OpRes::Reg(res)) = &o.res else { break };
            let dead_reg = reg.filter(|x| v.dead_from(*x) < o.begin);
            let unawaited = dead_reg.is_some_and(|x| !awaited_before(v, x, o.begin));
            if dead_reg.is_some() {
                vd.class("registry_op_after_termination");
                if unawaited {
                    nt = true;
                    vd.class("registry_op_after_unawaited_termination");
                }
            }
            match (rop, res) {
                (RegOp::FromRegistry, RegRes::Got(id)) => {
                    if let Some(x) = dead_reg {
                        match id {
                            Ident::Live { actor, .. } if *actor != x => {}
                            other => vd.fail(
                                format!("C14/no_respawn/awaited={}", !unawaited),
                                format!("service kind {kind}: the registered instance {x} ended at {}, from_registry at {} returned {other:?} instead of a fresh instance", v.dead_from(x), o.begin),
                            ),
                        }
                    }
                    if let Ident::Live { actor, .. } = id {
                        reg = Some(*actor);
                    }
                }
                (RegOp::Setup, _) => {
                    // setup() over a terminated entry respawns the service: the next (sequential) registry
                    // operation finds a running one.  Which instance is registered now cannot be observed.
                    if let (Some(x), Some(next)) = (dead_reg, ops.get(idx + 1)) {
                        let bad = match (&next.what, &next.res) {
                            (OpWhat::Reg(RegOp::AlreadyRunning, _), Some(OpRes::Reg(RegRes::Running(r)))) => *r != Some(true),
                            (OpWhat::Reg(RegOp::TryFromRegistry, _), Some(OpRes::Reg(RegRes::TryGot(g)))) => g.is_none(),
                            _ => false,
                        };
                        if bad {
                            vd.fail(
                                format!("C14/setup_no_respawn/awaited={}", !unawaited),
                                format!("service kind {kind}: the registered instance {x} ended at {}, setup() at {} completed, yet the next operation at {} got {:?}", v.dead_from(x), o.begin, next.begin, next.res),
                            );
                        }
                    }
                    break;
                }
                (RegOp::TryFromRegistry, RegRes::TryGot(got)) => {
                    if let (Some(x), Some(g)) = (dead_reg, got) {
                        vd.fail(
                            format!("C14/try_from_registry_terminated/awaited={}", !unawaited),
                            format!("service kind {kind}: the registered instance {x} ended at {}, try_from_registry at {} returned {g:?}", v.dead_from(x), o.begin),
                        );
                    }
                }
                (RegOp::Register, RegRes::RegisterErr { me, err }) => {
                    if let Some(x) = dead_reg {
                        vd.fail(
                            format!("C14/register_rejected/awaited={}", !unawaited),
                            format!("service kind {kind}: the registered instance {x} ended at {}, register of {me} at {} failed with {err}", v.dead_from(x), o.begin),
                        );
                    }
                }
                (RegOp::Register, RegRes::Registered { me, .. }) => reg = Some(*me),
                (RegOp::Replace, RegRes::Prev { me, .. }) => reg = *me,
                (RegOp::Unregister, _) => reg = None,
                _ => {}
            }
        }
    }
    // the broker behind `ctx.subscribe` / `Broker::subscribe` is an on-demand service as well: a
    // subscription after its termination - awaited by somebody or not - finds a new, running one
    for topic in 0..2u8 {
        let halts: Vec<&OpRec> = v.ops.iter().filter(|o| o.what == OpWhat::BrokerHalt(topic)).collect();
        for s in v.ops.iter().filter(|o| o.what == OpWhat::Subscribe(topic) && o.end.is_some()) {
            let after = halts.iter().any(|h| matches!(h.res, Some(OpRes::Bool(true))) && h.end.is_some_and(|e| e < s.begin));
            let overlap = halts.iter().any(|h| h.begin < s.end.unwrap() && h.end_or_max() > s.begin);
            if !after || overlap {
                continue;
            }
            vd.class("subscribe_after_broker_termination");
            nt = true;
            if s.err() {
                vd.fail(
                    "C14/subscribe_failed_after_broker_end",
                    format!("topic {topic}: the broker had terminated before {:?} subscribed at {}, and nobody stopped the broker meanwhile, but the subscription failed with {:?} instead of finding a new broker", s.actor, s.begin, s.res),
                );
            }
        }
    }
    vd.nontrivial = nt;
}
