//! C01 Mailbox is FIFO: sequential, in-order, at-most-once message handling.
use std::collections::BTreeMap;

use super::Verdict;
use crate::{analysis::*, history::*, model::*};

fn waiting_path(o: &OpRec) -> bool {
    // Addr::send, Sender, WeakSender, Caller, WeakCaller go through the waiting closure;
    // Addr::call / ping / OwningAddr::call use the forcing one
    match (o.what, o.via) {
        (OpWhat::Send | OpWhat::SendAbandoned, _) => true,
        (OpWhat::Call, Some(HKind::Caller | HKind::WeakCaller)) => true,
        _ => false,
    }
}

/// (a) non-overlap + (b) at-most-once + (d) fold; shared with other families as sanity rules
pub fn structural(v: &View, vd: &mut Verdict, prop: &str) {
    // (a) handler invocations and lifecycle callbacks of one actor never overlap
    let mut open: BTreeMap<ActorId, (u32, u64)> = BTreeMap::new();
    for e in v.hist {
        match &e.kind {
            EvKind::HEnter { actor, inv, .. } => {
                if let Some((other, s)) = open.get(actor) {
                    // an abandoned (timed out) invocation never exits: it overlaps only if it
                    // makes progress after this entry
                    let progressed = v
                        .invs
                        .iter()
                        .find(|i| i.inv == *other)
                        .is_some_and(|i| i.steps.iter().any(|st| st.1 > e.stamp) || i.exit.is_some_and(|x| x > e.stamp));
                    if progressed {
                        vd.fail(
                            format!("{prop}/overlap"),
                            format!("actor {actor}: invocation {inv} entered at {} while invocation {other} (entered at {s}) was still running", e.stamp),
                        );
                    }
                }
                open.insert(*actor, (*inv, e.stamp));
            }
            EvKind::HExit { actor, .. } => {
                open.remove(actor);
            }
            EvKind::Cb { actor, enter: true, cb, .. } => {
                if let Some((other, s)) = open.get(actor) {
                    // an abandoned (timed out) invocation never exits: only complain if the
                    // invocation made progress after this callback started
                    let later_step = v
                        .invs
                        .iter()
                        .find(|i| i.inv == *other)
                        .is_some_and(|i| i.steps.iter().any(|st| st.1 > e.stamp) || i.exit.is_some_and(|x| x > e.stamp));
                    if later_step {
                        vd.fail(
                            format!("{prop}/overlap_callback"),
                            format!("actor {actor}: {cb:?} entered at {} while invocation {other} (entered at {s}) was still running", e.stamp),
                        );
                    }
                    open.remove(actor);
                }
            }
            EvKind::TaskEnd { tag: crate::sim::TaskTag::Actor(a), .. } => {
                open.remove(a);
            }
            _ => {}
        }
    }
    // (b) at most once
    let mut seen: BTreeMap<(usize, &MsgRef), u32> = BTreeMap::new();
    for i in &v.invs {
        if matches!(i.msg, MsgRef::Client(_) | MsgRef::Item(_) | MsgRef::Tick { .. }) {
            // stream items are numbered per stream (= per actor); the others are globally unique
            let key = if matches!(i.msg, MsgRef::Item(_)) { i.actor } else { 0 };
            if let Some(prev) = seen.insert((key, &i.msg), i.inv) {
                vd.fail(
                    format!("{prop}/handled_twice"),
                    format!("message {:?} entered twice: invocations {prev} and {}", i.msg, i.inv),
                );
            }
        }
    }
    // (d) fold: the state a reply / final value shows is exactly the handled messages of that value, in order
    let mut began: BTreeMap<u32, Vec<(u64, &MsgRef)>> = BTreeMap::new();
    let mut done: BTreeMap<u32, Vec<(u64, &MsgRef)>> = BTreeMap::new();
    for i in &v.invs {
        began.entry(i.value).or_default().push((i.enter, &i.msg));
        if let Some(x) = i.exit {
            done.entry(i.value).or_default().push((x, &i.msg));
        }
    }
    for d in done.values_mut() {
        d.sort();
    }
    let empty = Vec::new();
    for o in v.ops.iter() {
        if let Some(r) = o.reply() {
            let Some(inv) = v.invs.iter().find(|i| i.inv == r.inv) else { continue };
            let exit = inv.exit.unwrap_or(u64::MAX);
            let exp_b: Vec<&MsgRef> =
                began.get(&r.value).unwrap_or(&empty).iter().filter(|(s, _)| *s <= inv.enter).map(|(_, m)| *m).collect();
            let exp_d: Vec<&MsgRef> =
                done.get(&r.value).unwrap_or(&empty).iter().filter(|(s, _)| *s <= exit).map(|(_, m)| *m).collect();
            if exp_b != r.began.iter().collect::<Vec<_>>() || exp_d != r.done.iter().collect::<Vec<_>>() {
                vd.fail(
                    format!("{prop}/fold_reply"),
                    format!("reply to {:?} shows began={:?} done={:?}, history says began={:?} done={:?}", r.msg, r.began, r.done, exp_b, exp_d),
                );
            }
        }
        if let Some(OpRes::Joined(Some(f))) = &o.res {
            let exp_b: Vec<&MsgRef> = began.get(&f.value).unwrap_or(&empty).iter().map(|(_, m)| *m).collect();
            let exp_d: Vec<&MsgRef> = done.get(&f.value).unwrap_or(&empty).iter().map(|(_, m)| *m).collect();
            if exp_b != f.began.iter().collect::<Vec<_>>() || exp_d != f.done.iter().collect::<Vec<_>>() {
                vd.fail(
                    format!("{prop}/fold_final"),
                    format!("joined value shows began={:?} done={:?}, history says began={:?} done={:?}", f.began, f.done, exp_b, exp_d),
                );
            }
        }
    }
}

/// (c) order: submission of m1 completed before submission of m2 began => m2 handled implies m1
/// handled earlier
pub fn order(v: &View, vd: &mut Verdict, prop: &str) -> (usize, usize) {
    let subs: Vec<&OpRec> = v
        .client_ops()
        .filter(|o| matches!(o.what, OpWhat::Send | OpWhat::SendAbandoned | OpWhat::Call | OpWhat::CallAbandoned | OpWhat::Ping) && o.actor.is_some())
        .collect();
    let enter_of = |o: &OpRec| -> Option<u64> {
        o.msg.and_then(|m| v.invs.iter().find(|i| i.msg == MsgRef::Client(m) && Some(i.actor) == o.actor).map(|i| i.enter))
    };
    let mut pairs = 0;
    let mut cross_pairs = 0;
    for m1 in &subs {
        // m1's submission completed: send returned Ok, call / ping returned Ok
        if m1.what == OpWhat::Ping || !m1.ok() {
            continue;
        }
        let Some(e1) = m1.end else { continue };
        for m2 in &subs {
            if m2.actor != m1.actor || m2.begin < e1 {
                continue;
            }
            match m2.what {
                OpWhat::Ping => {
                    // a ping that returned Ok proves that everything accepted before it was taken out
                    if m2.ok() {
                        let p_end = m2.end.unwrap();
                        match enter_of(m1) {
                            Some(h1) if h1 < p_end => {}
                            other => vd.fail(
                                format!("{prop}/order_ping"),
                                format!("{:?} (client {} op {}) was accepted at {e1}, ping (client {} op {}) began at {} and returned Ok at {p_end}, but the message was entered at {other:?}", m1.what, m1.client, m1.op, m2.client, m2.op, m2.begin),
                            ),
                        }
                    }
                }
                _ => {
                    if let Some(h2) = enter_of(m2) {
                        pairs += 1;
                        if m1.client != m2.client || waiting_path(m1) != waiting_path(m2) {
                            cross_pairs += 1;
                        }
                        match enter_of(m1) {
                            Some(h1) if h1 < h2 => {}
                            Some(h1) => vd.fail(
                                format!("{prop}/order_inverted"),
                                format!("m1=(client {} op {} {:?} via {:?}) completed at {e1} before m2=(client {} op {} {:?} via {:?}) began at {}; handled m1@{h1} m2@{h2}", m1.client, m1.op, m1.what, m1.via, m2.client, m2.op, m2.what, m2.via, m2.begin),
                            ),
                            None => vd.fail(
                                format!("{prop}/order_without"),
                                format!("m2=(client {} op {} {:?} via {:?}) handled at {h2} but m1=(client {} op {} {:?} via {:?}), accepted earlier at {e1}, never was", m2.client, m2.op, m2.what, m2.via, m1.client, m1.op, m1.what, m1.via),
                            ),
                        }
                    }
                }
            }
        }
    }
    (pairs, cross_pairs)
}

pub fn check(v: &View, vd: &mut Verdict) {
    structural(v, vd, "C01");
    let (pairs, cross) = order(v, vd, "C01");
    super::c04::abandoned_accepted(v, vd, "C01");
    if pairs > 0 {
        vd.class("ordered_pair");
    }
    if cross > 0 {
        vd.class("cross_path_or_client_pair");
    }
    // the fold is only ever reset by a restart that somebody asked for
    for a in 0..v.actors.len() {
        if v.actors[a].spawned.is_none() || v.rt[a].origin == Origin::Phantom {
            continue;
        }
        let starts = v.cbs.iter().filter(|c| c.actor == a && c.cb == Cb::Started).count();
        let reqs = v.client_ops().filter(|o| o.actor == Some(a) && o.what == OpWhat::Restart && o.ok()).count()
            + v.hist.iter().filter(|e| matches!(&e.kind, EvKind::CtxOp { actor, op: CtxOpKind::Restart, ok: true, .. } if *actor == a)).count();
        if starts > 1 + reqs {
            vd.fail("C01/state_reset_without_restart", format!("actor {a}: started() ran {starts} times but only {reqs} restart requests were accepted: the state that later messages see is not the fold of the handled ones"));
        }
    }
    // a call that returned Ok must have been handled (fold would not show it otherwise)
    vd.nontrivial = cross > 0;
}
