//! C15 Every strong handle kind keeps the actor fully functional, not just reachable.
use std::collections::{BTreeMap, BTreeSet};

use super::Verdict;
use crate::{analysis::*, history::*, model::*};

pub fn check(v: &View, vd: &mut Verdict) {
    let n = v.actors.len();
    // which strong handles exist at each stamp (per actor): id -> kind
    let mut alive: Vec<BTreeMap<u32, HKind>> = vec![BTreeMap::new(); n];
    // snapshots: (stamp, set of kinds) after each change
    let mut snaps: Vec<Vec<(u64, Vec<HKind>)>> = vec![vec![]; n];
    let mut primary: Vec<i32> = vec![0; n];
    for e in v.hist {
        match &e.kind {
            EvKind::HandleNew { actor, kind, id, .. } if kind.strong() => {
                if *id == u32::MAX {
                    primary[*actor] += 1;
                } else {
                    alive[*actor].insert(*id, *kind);
                }
                let mut ks: Vec<HKind> = alive[*actor].values().copied().collect();
                if primary[*actor] > 0 {
                    ks.push(HKind::Addr);
                }
                snaps[*actor].push((e.stamp, ks));
            }
            EvKind::HandleDrop { actor, kind, id, .. } if kind.strong() => {
                if *id == u32::MAX {
                    primary[*actor] -= 1;
                } else {
                    alive[*actor].remove(id);
                }
                let mut ks: Vec<HKind> = alive[*actor].values().copied().collect();
                if primary[*actor] > 0 {
                    ks.push(HKind::Addr);
                }
                snaps[*actor].push((e.stamp, ks));
            }
            _ => {}
        }
    }
    let kinds_at = |a: usize, s: u64| -> Vec<HKind> { snaps[a].iter().rev().find(|(st, _)| *st <= s).map(|(_, k)| k.clone()).unwrap_or_default() };
    let shape = |ks: &[HKind]| -> String {
        let set: BTreeSet<HKind> = ks.iter().copied().collect();
        set.iter().map(|k| format!("{k:?}")).collect::<Vec<_>>().join("+")
    };
    let mut nt = false;
    for a in 0..n {
        if v.actors[a].spawned.is_none() {
            continue;
        }
        let limit = v.alive_until(a);
        // context stop / restart succeed
        for e in v.hist {
            if let EvKind::CtxOp { actor, op, ok, .. } = &e.kind {
                if *actor != a || e.stamp >= limit {
                    continue;
                }
                let ks = kinds_at(a, e.stamp);
                if ks.is_empty() {
                    continue;
                }
                if !ks.iter().any(|k| matches!(k, HKind::Addr | HKind::Owning)) {
                    nt = true;
                    vd.class("ctx_op_without_addr");
                }
                if !*ok {
                    vd.fail(format!("C15/ctx_{:?}_err/only={}", op, shape(&ks)), format!("actor {a}: Context::{op:?} at {} failed although these strong handles existed: {ks:?}", e.stamp));
                }
            }
        }
        // weak handles upgrade
        // (also after the actor has terminated: what a weak handle upgrades to is the handle, and strong
        // handles of the same kind are still around - only the harness' own teardown ends this)
        for o in v.client_ops().filter(|o| o.actor == Some(a) && o.what == OpWhat::Upgrade && o.end.is_some()) {
            if o.begin >= v.phase(Phase::Teardown) {
                continue;
            }
            let ks = kinds_at(a, o.begin);
            if ks.is_empty() {
                continue;
            }
            if !ks.iter().any(|k| matches!(k, HKind::Addr | HKind::Owning)) {
                nt = true;
                vd.class("upgrade_without_addr");
            }
            if !matches!(o.res, Some(OpRes::Opt(true))) {
                vd.fail(
                    format!("C15/upgrade_none/{:?}/only={}", o.via.unwrap(), shape(&ks)),
                    format!("actor {a}: upgrade of a {:?} at {} returned None although these strong handles existed: {ks:?}", o.via, o.begin),
                );
            }
        }
        // weak submissions work as well (they upgrade internally)
        for o in v.client_ops().filter(|o| o.actor == Some(a) && matches!(o.via, Some(HKind::WeakSender | HKind::WeakCaller)) && matches!(o.what, OpWhat::Send | OpWhat::Call) && o.end.is_some()) {
            if o.end.unwrap() >= limit {
                continue;
            }
            let ks = kinds_at(a, o.begin);
            if ks.is_empty() || kinds_at(a, o.end.unwrap()).is_empty() {
                continue;
            }
            // a call whose handler exceeds the configured handler timeout is abandoned: its error is C11's matter
            let abandoned = v.rt[a].timeout.is_some_and(|(t, _)| {
                o.msg.and_then(|id| v.work_of(id)).is_some_and(|w| w.iter().map(|s| if let Step::Sleep(x) = s { *x as u64 } else { 0 }).sum::<u64>() > t as u64)
            });
            if o.err() && !abandoned {
                vd.fail(
                    format!("C15/weak_submit_err/{:?}/only={}", o.via.unwrap(), shape(&ks)),
                    format!("actor {a}: {:?} through a {:?} at {} failed ({:?}) although these strong handles existed: {ks:?}", o.what, o.via, o.begin, o.res),
                );
            }
        }
        // timers keep firing: interval timers (forcing path) tick exactly every period while the actor lives
        // (a restart aborts the timers of the incarnation that ends: each timer is judged up to then)
        let mut timers: BTreeMap<usize, (u64, u64, u64, Vec<(u64, u64)>)> = BTreeMap::new(); // timer -> (reg stamp, reg time, period, creations (stamp, time))
        for e in v.hist {
            match &e.kind {
                EvKind::TimerReg { actor, timer, kind: TimerKind::Interval, ticks, .. } if *actor == a => {
                    timers.insert(*timer, (e.stamp, e.time, *ticks as u64, vec![]));
                }
                EvKind::TickCreated { actor, timer, .. } if *actor == a => {
                    if let Some(t) = timers.get_mut(timer) {
                        t.3.push((e.stamp, e.time));
                    }
                }
                _ => {}
            }
        }
        let global_limit = limit;
        for (id, (reg_stamp, reg_time, period, created)) in &timers {
            let limit = v.timer_valid_until(a, *reg_stamp).min(global_limit);
            if *reg_stamp >= limit {
                continue;
            }
            let limit_time = v.hist.iter().find(|e| e.stamp >= limit).map(|e| e.time).unwrap_or(v.flags.end_time);
            let created: Vec<u64> = created.iter().filter(|(s, _)| *s < limit).map(|(_, t)| *t).collect();
            let created = &created;
            let expect = limit_time.saturating_sub(*reg_time) / period;
            // the tick due exactly at limit_time may or may not have been created before `limit`
            let due_at_limit = (limit_time - reg_time) % period == 0 && limit_time > *reg_time;
            let min_expect = if due_at_limit { expect.saturating_sub(1) } else { expect };
            let ks = kinds_at(a, limit.saturating_sub(1));
            if (created.len() as u64) < min_expect && !ks.is_empty() {
                // which kinds were alive when the first missing tick was due?
                let due_time = reg_time + (created.len() as u64 + 1) * period;
                let due_stamp = v.hist.iter().find(|e| e.time >= due_time).map(|e| e.stamp).unwrap_or(limit);
                let ks_due = kinds_at(a, due_stamp.min(limit.saturating_sub(1)));
                if !ks_due.iter().any(|k| matches!(k, HKind::Addr | HKind::Owning)) {
                    nt = true;
                }
                vd.fail(
                    format!("C15/timer_stopped/only={}", shape(&ks_due)),
                    format!("actor {a}: interval timer {id} (period {period}, registered at t={reg_time}) produced {} ticks by t={limit_time}, expected at least {min_expect}; strong handles then: {ks_due:?}", created.len()),
                );
            } else if created.len() as u64 >= 1 && !ks.iter().any(|k| matches!(k, HKind::Addr | HKind::Owning)) && !ks.is_empty() {
                vd.class("ticks_without_addr");
                nt = true;
            }
        }
    }
    // conversions never change which actor is addressed
    for o in v.client_ops().filter(|o| matches!(o.what, OpWhat::Send | OpWhat::Call)) {
        let Some(a) = o.actor else { continue };
        for i in v.inv_of_msg(o.msg.unwrap()) {
            if i.actor != a {
                vd.fail(format!("C15/wrong_actor/via={:?}", o.via.unwrap()), format!("message {} submitted through a {:?} of actor {a} was handled by actor {}", o.msg.unwrap(), o.via, i.actor));
            }
        }
        if let Some(r) = o.reply() {
            if r.actor != a {
                vd.fail(format!("C15/wrong_actor/via={:?}", o.via.unwrap()), format!("call {} through a {:?} of actor {a} was answered by actor {}", o.msg.unwrap(), o.via, r.actor));
            }
        }
    }
    vd.nontrivial = nt;
}
