//! C16 Children live exactly as long as their parent and receive its broadcasts.
use super::Verdict;
use crate::{analysis::*, history::*, model::*, sim::{TaskEnd, TaskTag}};

fn depth(case: &Case, s: usize) -> usize {
    match case.actors[s].parent {
        Some(p) => 1 + depth(case, p.parent),
        None => 0,
    }
}

pub fn check(v: &View, vd: &mut Verdict) {
    let case = v.case;
    let mut max_depth = 0;
    let mut broadcasts = 0;
    let mut nongraceful_parent = false;
    for (s, spec) in case.actors.iter().enumerate() {
        let Some(ch) = spec.parent else { continue };
        let p = ch.parent;
        if v.actors[s].spawned.is_none() {
            continue;
        }
        max_depth = max_depth.max(depth(case, s));
        // the parent has terminated when its loop is over: its context, and with it the child list, goes
        // right then, while the task itself may end a little later (the join handle is completed last).
        // The last event logged by the parent's own task is a sound lower bound for that moment.
        let parent_end = match v.hist.iter().find(|e| matches!(&e.kind, EvKind::TaskEnd { tag: TaskTag::Actor(x), .. } if *x == p)) {
            Some(te) => {
                let tid = match &te.kind {
                    EvKind::TaskEnd { task, .. } => Some(*task),
                    _ => None,
                };
                v.hist.iter().filter(|e| e.task == tid && e.stamp < te.stamp).map(|e| e.stamp).max().unwrap_or(te.stamp)
            }
            None => u64::MAX,
        };
        let child_end = v.actors[s].task_end;
        // causes that concern the child itself: stop requests from outside handles, its own ctx.stop
        let mut own_cause = u64::MAX;
        for &i in &v.actors[s].stop_reqs {
            own_cause = own_cause.min(v.ops[i].begin);
        }
        for e in v.hist {
            if let EvKind::CtxOp { actor, inv, op: CtxOpKind::Stop, .. } = &e.kind {
                if *actor == s {
                    let issued = inv.and_then(|i| v.invs.iter().find(|x| x.inv == i)).map(|x| x.enter).unwrap_or(e.stamp);
                    own_cause = own_cause.min(issued);
                }
            }
        }
        // stamp at which the last outside handle went away (0 = never had one)
        let mut cnt = 0i64;
        let mut known_zero = 0u64;
        for e in v.hist {
            match &e.kind {
                EvKind::HandleNew { actor, kind, .. } if *actor == s && kind.strong() => cnt += 1,
                EvKind::HandleDrop { actor, kind, .. } if *actor == s && kind.strong() => {
                    cnt -= 1;
                    if cnt <= 0 {
                        known_zero = e.stamp;
                    }
                }
                EvKind::ChildAdded { child, outside: true, .. } if *child == s => {
                    // handed to the harness, picked up later by client 0 or dropped at teardown
                    known_zero = u64::MAX;
                }
                _ => {}
            }
        }
        if cnt > 0 {
            known_zero = u64::MAX;
        }
        if known_zero == u64::MAX {
            // find the final drop if there is one
            let mut c2 = 0i64;
            let mut last = u64::MAX;
            let mut pending_outside = false;
            for e in v.hist {
                match &e.kind {
                    EvKind::ChildAdded { child, outside: true, .. } if *child == s => pending_outside = true,
                    EvKind::HandleNew { actor, kind, .. } if *actor == s && kind.strong() => {
                        c2 += 1;
                        pending_outside = false;
                        last = u64::MAX;
                    }
                    EvKind::HandleDrop { actor, kind, .. } if *actor == s && kind.strong() => {
                        if pending_outside {
                            // dropped from the hand-over list at teardown
                            pending_outside = false;
                            last = e.stamp;
                        } else {
                            c2 -= 1;
                            if c2 <= 0 {
                                last = e.stamp;
                            }
                        }
                    }
                    _ => {}
                }
            }
            known_zero = last;
        }
        let must_live_until = own_cause.min(parent_end.max(known_zero));
        if let Some((ce, _)) = child_end {
            if ce < must_live_until {
                vd.fail(
                    if ce < parent_end { "C16/child_ended_before_parent" } else { "C16/outside_child_ended_with_parent" },
                    format!("child {s} of parent {p} ended at {ce}; its parent ended at {:?}, its last outside handle went at {:?}, nothing else asked it to stop", if parent_end == u64::MAX { None } else { Some(parent_end) }, if known_zero == 0 { None } else { Some(known_zero) }),
                );
            }
        }
        if parent_end != u64::MAX {
            if !matches!(v.actors[p].task_end, Some((_, TaskEnd::Done))) || !v.actors[p].graceful {
                nongraceful_parent = true;
            }
            // released: finishes what it accepted and stops gracefully
            match child_end {
                None => vd.fail("C16/child_not_released", format!("child {s} of parent {p} is still alive at the end although its parent ended at {parent_end} and no handle is left")),
                Some((_, end)) => {
                    if !(end == TaskEnd::Done && v.actors[s].graceful) {
                        vd.fail("C16/child_not_graceful", format!("child {s} of parent {p}: parent ended at {parent_end}; the child ended with {end:?}, stopped exit {:?}", v.actors[s].stopped_exit));
                    }
                }
            }
        }
    }
    // broadcasts: exactly once to every child registered under that type, to nobody else
    for i in &v.invs {
        let Some(pslot) = v.rt[i.actor].slot else { continue };
        let steps: Vec<&Step> = match &i.msg {
            MsgRef::Client(id) => v.work_of(*id).map(|w| w.iter().collect()).unwrap_or_default(),
            _ => vec![],
        };
        for (k, st) in steps.iter().enumerate() {
            let Step::SendToChildren { reg, tag } = st else { continue };
            // executed?
            let Some((_, at, _)) = i.steps.iter().find(|x| x.0 as usize == k) else { continue };
            broadcasts += 1;
            for (s, spec) in case.actors.iter().enumerate() {
                let is_target = spec.parent.is_some_and(|c| c.parent == pslot && (c.under == *reg || c.also_under == Some(*reg)));
                let want = match reg {
                    ChildReg::Unit => None,
                    ChildReg::Msg0 => Some(MsgRef::Child { reg: 0, tag: *tag }),
                    ChildReg::Msg1 => Some(MsgRef::Child { reg: 1, tag: *tag }),
                };
                let Some(want) = want else { continue };
                let got = v.invs.iter().filter(|x| x.actor == s && x.msg == want).count();
                // the child may have been stopped from outside before the broadcast
                let child_alive = v.actors[s].spawned.is_some_and(|sp| sp < *at) && *at < v.alive_until(s);
                if is_target && got == 1 {
                    // the broadcast is in the child's mailbox when send_to_children returns: a message
                    // submitted to the child after the broadcasting handler had finished comes after it
                    let b_inv = v.invs.iter().find(|x| x.actor == s && x.msg == want).unwrap();
                    if let Some(bexit) = i.exit {
                        for o in v.client_ops().filter(|o| o.actor == Some(s) && matches!(o.what, OpWhat::Send | OpWhat::Call) && o.begin > bexit) {
                            if let Some(m) = o.msg.and_then(|id| v.inv_of_msg(id).into_iter().next()) {
                                vd.class("direct_message_after_broadcast");
                                if m.enter < b_inv.enter {
                                    vd.fail(
                                        "C16/broadcast_overtaken",
                                        format!("broadcast tag {tag} ({reg:?}) was sent by actor {} in a handler that finished at {bexit}; message {} submitted to child {s} at {} was handled at {}, before the broadcast at {}", i.actor, o.msg.unwrap(), o.begin, m.enter, b_inv.enter),
                                    );
                                }
                            }
                        }
                    }
                }
                if is_target {
                    if got > 1 {
                        vd.fail("C16/broadcast_duplicated", format!("broadcast tag {tag} ({reg:?}) of actor {} was handled {got} times by child {s}", i.actor));
                    }
                    if got == 0 && child_alive {
                        vd.fail("C16/broadcast_lost", format!("broadcast tag {tag} ({reg:?}) of actor {} at {at} never reached child {s}", i.actor));
                    }
                } else if got > 0 {
                    vd.fail("C16/broadcast_leaked", format!("broadcast tag {tag} ({reg:?}) of actor {} was handled by actor {s}, which is not registered under that type", i.actor));
                }
            }
        }
    }
    // unit broadcasts: count per child
    for (s, spec) in case.actors.iter().enumerate() {
        let units = v.invs.iter().filter(|x| x.actor == s && x.msg == MsgRef::Unit).count();
        // (all executed unit broadcasts of the parent, those executed while the child was certainly alive)
        let sent = |pslot: usize| -> (usize, usize) {
            let mut all = 0;
            let mut sure = 0;
            for i in v.invs.iter().filter(|i| v.rt[i.actor].slot == Some(pslot)) {
                let MsgRef::Client(id) = &i.msg else { continue };
                let Some(w) = v.work_of(*id) else { continue };
                for (k, st) in w.iter().enumerate() {
                    if !matches!(st, Step::SendToChildren { reg: ChildReg::Unit, .. }) {
                        continue;
                    }
                    if let Some((_, at, _)) = i.steps.iter().find(|x| x.0 as usize == k) {
                        all += 1;
                        if v.actors[s].spawned.is_some_and(|sp| sp < *at) && *at < v.alive_until(s) {
                            sure += 1;
                        }
                    }
                }
            }
            (all, sure)
        };
        match spec.parent {
            Some(c) if c.under == ChildReg::Unit || c.also_under == Some(ChildReg::Unit) => {
                let (all, sure) = sent(c.parent);
                if units > all {
                    vd.fail("C16/unit_broadcast_duplicated", format!("child {s} handled {units} unit broadcasts, its parent sent {all}"));
                }
                if units < sure && v.actors[s].spawned.is_some() {
                    vd.fail("C16/unit_broadcast_lost", format!("child {s} handled {units} unit broadcasts, its parent sent {sure} while the child was alive ({all} in total)"));
                }
            }
            _ => {
                if units > 0 {
                    vd.fail("C16/unit_broadcast_leaked", format!("actor {s} is not an add_child child but handled {units} unit broadcasts"));
                }
            }
        }
    }
    // census
    let leaked: Vec<String> = v.tasks.iter().filter(|t| t.end.is_none() && matches!(t.tag, TaskTag::Actor(_) | TaskTag::Timer { .. })).map(|t| format!("{:?}", t.tag)).collect();
    if !leaked.is_empty() {
        vd.fail("C16/alive_at_quiescence", format!("tasks alive at the end: {leaked:?}"));
    }
    if max_depth >= 2 {
        vd.class("depth_ge_2");
    }
    if broadcasts > 0 {
        vd.class("broadcast");
    }
    if nongraceful_parent {
        vd.class("nongraceful_parent_end");
    }
    vd.nontrivial = max_depth >= 2 && broadcasts > 0 && nongraceful_parent;
}
