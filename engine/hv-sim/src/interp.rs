//! Executes one case on the simulation executor and returns its history.
use std::{
    cell::{Cell, RefCell},
    future::Future,
    pin::Pin,
    rc::Rc,
    sync::Arc,
    task::{Context as TaskCx, Poll},
};

use hannibal::{Addr, Broker, Caller, Sender, Service, WeakCaller, WeakSender};

use crate::{
    ctx::{ActorRt, CaseCtx, install_case, log, with_case},
    history::*,
    model::*,
    on_any,
    probe::*,
    sim::{Sim, SimBackend, SimEvent, TaskMeta, TaskTag, yield_now},
};

// ---------------------------------------------------------------------------------------------

pub enum H {
    Addr(AnyAddr),
    Owning(AnyOwning),
    Sender(Sender<Cast>),
    Caller(Caller<Ask>),
    WeakAddr(AnyWeak),
    WeakSender(WeakSender<Cast>),
    WeakCaller(WeakCaller<Ask>),
}

impl H {
    pub fn kind(&self) -> HKind {
        match self {
            H::Addr(_) => HKind::Addr,
            H::Owning(_) => HKind::Owning,
            H::Sender(_) => HKind::Sender,
            H::Caller(_) => HKind::Caller,
            H::WeakAddr(_) => HKind::WeakAddr,
            H::WeakSender(_) => HKind::WeakSender,
            H::WeakCaller(_) => HKind::WeakCaller,
        }
    }
}

pub struct Held {
    pub id: u32,
    pub actor: ActorId,
    pub h: H,
}

type Table = Vec<Option<Held>>;
type Inbox = Rc<RefCell<Vec<Held>>>;

fn new_held(client: Option<usize>, actor: ActorId, h: H) -> Held {
    let id = with_case(|c| c.new_handle());
    log(EvKind::HandleNew { client, actor, kind: h.kind(), id });
    Held { id, actor, h }
}

fn drop_held(client: Option<usize>, held: Held) {
    log(EvKind::HandleDrop { client, actor: held.actor, kind: held.h.kind(), id: held.id });
    drop(held);
}

/// counts how often the wrapped future returned `Pending`
struct CountPolls<F> {
    f: Pin<Box<F>>,
    pending: Rc<Cell<u32>>,
}

thread_local! {
    /// op index currently executed by each client (for OpFirstPending)
    static CUR_OPS: RefCell<Vec<usize>> = const { RefCell::new(Vec::new()) };
}
impl<F: Future> Future for CountPolls<F> {
    type Output = F::Output;
    fn poll(mut self: Pin<&mut Self>, cx: &mut TaskCx<'_>) -> Poll<F::Output> {
        match self.f.as_mut().poll(cx) {
            Poll::Pending => {
                if self.pending.get() == 0 {
                    if let Some(TaskTag::Client(client)) = with_case(|c| c.sim.current_tag()) {
                        if let Some(op) = CUR_OPS.with(|c| c.borrow().get(client).copied()) {
                            log(EvKind::OpFirstPending { client, op });
                        }
                    }
                }
                self.pending.set(self.pending.get() + 1);
                Poll::Pending
            }
            r => r,
        }
    }
}

/// polls the inner future at most `left` times (yielding to the executor in between); if it has
/// not resolved by then it is dropped
struct PollThenDrop<'a, T> {
    f: Option<Pin<Box<dyn Future<Output = T> + 'a>>>,
    left: u32,
}
impl<T> Future for PollThenDrop<'_, T> {
    type Output = Option<T>;
    fn poll(mut self: Pin<&mut Self>, cx: &mut TaskCx<'_>) -> Poll<Option<T>> {
        let this = &mut *self;
        let Some(f) = this.f.as_mut() else { return Poll::Ready(None) };
        if this.left == 0 {
            this.f = None;
            return Poll::Ready(None);
        }
        this.left -= 1;
        match f.as_mut().poll(cx) {
            Poll::Ready(v) => {
                this.f = None;
                Poll::Ready(Some(v))
            }
            Poll::Pending => {
                // come back even if nobody wakes us: the budget is in polls, not in events
                cx.waker().wake_by_ref();
                Poll::Pending
            }
        }
    }
}

thread_local! {
    /// join futures kept alive by `JoinStash` (dropped when the case is torn down)
    static STASH: RefCell<Vec<Pin<Box<dyn Future<Output = ()>>>>> = const { RefCell::new(Vec::new()) };
    /// join futures created (and not polled) before a detach: (client, actor, future)
    #[allow(clippy::type_complexity)]
    static LAZY: RefCell<Vec<(usize, ActorId, Pin<Box<dyn Future<Output = Option<FinalValue>>>>)>> = const { RefCell::new(Vec::new()) };
}

/// polls the inner future `extra` times more than it is woken
struct Repoll<'a, T> {
    f: Pin<Box<dyn Future<Output = T> + 'a>>,
    extra: u32,
}
impl<T> Future for Repoll<'_, T> {
    type Output = T;
    fn poll(mut self: Pin<&mut Self>, cx: &mut TaskCx<'_>) -> Poll<T> {
        let this = &mut *self;
        match this.f.as_mut().poll(cx) {
            Poll::Ready(v) => Poll::Ready(v),
            Poll::Pending => {
                if this.extra > 0 {
                    this.extra -= 1;
                    cx.waker().wake_by_ref();
                }
                Poll::Pending
            }
        }
    }
}

fn err_str<E: std::fmt::Debug>(e: E) -> String {
    format!("{e:?}")
}
fn res_unit<E: std::fmt::Debug>(r: Result<(), E>) -> OpRes {
    match r {
        Ok(()) => OpRes::Ok,
        Err(e) => OpRes::Err(err_str(e)),
    }
}
fn res_reply<E: std::fmt::Debug>(r: Result<Reply, E>) -> OpRes {
    match r {
        Ok(r) => OpRes::Reply(r),
        Err(e) => OpRes::Err(err_str(e)),
    }
}

fn pick(cands: &[usize], h: u16) -> Option<usize> {
    if cands.is_empty() { None } else { Some(cands[(h as usize * cands.len()) >> 16]) }
}

fn cands(table: &Table, f: impl Fn(HKind) -> bool) -> Vec<usize> {
    table.iter().enumerate().filter(|(_, e)| e.as_ref().is_some_and(|e| f(e.h.kind()))).map(|(i, _)| i).collect()
}

// peers / streams helpers used by probe::spawn_k ------------------------------------------------

pub fn take_peer_for(slot: Slot) -> Option<(ActorId, AnyAddr)> {
    with_case(|c| {
        let p = c.case.actors[slot].peer?;
        let a = c.primary.borrow().get(p).and_then(|x| x.clone())?;
        c.log(EvKind::HandleNew { client: None, actor: p, kind: HKind::Addr, id: u32::MAX - slot as u32 });
        Some((p, a))
    })
}

pub fn new_stream_for(actor: ActorId) -> ScriptedStream {
    with_case(|c| {
        let id = c.streams.borrow().len();
        let (s, ctl) = new_stream(id, actor);
        c.streams.borrow_mut().push(ctl);
        s
    })
}

// ---------------------------------------------------------------------------------------------

#[derive(Clone, Debug, Default, serde::Serialize)]
pub struct RunFlags {
    /// step budget exhausted before teardown
    pub inconclusive: bool,
    /// clients that had not finished when nothing could make progress any more (run phase)
    pub stuck_clients: Vec<usize>,
    /// the system did not become quiescent after teardown (step/time budget hit)
    pub not_quiescent: bool,
    /// teardown janitor did not finish (registry lock stuck)
    pub janitor_stuck: bool,
    pub steps: u64,
    pub choices: u64,
    pub end_time: u64,
    /// panics that were not injected: (task tag, message)
    pub foreign_panics: Vec<(String, String)>,
}

pub struct RunOutput {
    pub hist: History,
    pub tasks: Vec<TaskMeta>,
    pub actors: Vec<ActorRt>,
    pub flags: RunFlags,
}

async fn unregister_all() {
    drop(Addr::<Probe<0>>::unregister().await);
    drop(Addr::<Probe<1>>::unregister().await);
    drop(Addr::<Broker<Topic<0>>>::unregister().await);
    drop(Addr::<Broker<Topic<1>>>::unregister().await);
}

/// Must be called on a fresh thread (thread-locals: backend, case, select! PRNG).
pub fn run_case(case: &Case) -> RunOutput {
    let case = Arc::new(case.clone());
    let sim = Sim::new(case.schedule.clone());
    let cx = CaseCtx::new(Rc::clone(&sim), Arc::clone(&case));
    // clean registry (left-overs of an aborted previous case in this process)
    futures::executor::block_on(unregister_all());
    install_case(Some(Rc::clone(&cx)));
    // the hook's preemption points (after a lock acquisition, after the stop notification) are await
    // points that the real library does not have: a case that cancels the actor task "at any await
    // point" must not cancel it there, so such cases run without them
    let preempt = !case.faults.iter().any(|f| matches!(f, Fault::CancelActor { .. }));
    hannibal::verif::install(Some(Rc::new(SimBackend(Rc::clone(&sim), preempt))));
    {
        let cx2 = Rc::downgrade(&cx);
        *sim.on_event.borrow_mut() = Some(Box::new(move |e| {
            let Some(cx) = cx2.upgrade() else { return };
            match e {
                SimEvent::Spawned(t) => {
                    let tag = cx.sim.tag_of(t);
                    if let TaskTag::Actor(a) = tag {
                        if let Some(rt) = cx.actors.borrow_mut().get_mut(a) {
                            rt.task = Some(t);
                        }
                    }
                    cx.log(EvKind::Spawn { task: t, tag });
                }
                SimEvent::Ended(t, end) => {
                    let tag = cx.sim.tag_of(t);
                    cx.log(EvKind::TaskEnd { task: t, tag, end });
                }
            }
        }));
    }
    for f in &case.faults {
        if let Fault::CancelActor { actor, before_poll } = f {
            sim.add_cancel(TaskTag::Actor(*actor), *before_poll);
        }
    }

    let nclients = case.clients.len();
    let inboxes: Vec<Inbox> = (0..nclients).map(|_| Rc::new(RefCell::new(Vec::new()))).collect();
    let tables: Vec<Rc<RefCell<Table>>> = (0..nclients).map(|_| Rc::new(RefCell::new(Vec::new()))).collect();
    let done: Rc<RefCell<Vec<bool>>> = Rc::new(RefCell::new(vec![false; nclients]));
    let setup_done = Rc::new(Cell::new(false));

    cx.log(EvKind::Phase(Phase::Run));
    // set-up task: spawns the top-level actors, hands out the granted handles, starts the clients
    {
        let case = Arc::clone(&case);
        let inboxes = inboxes.clone();
        let tables = tables.clone();
        let done = Rc::clone(&done);
        let sim2 = Rc::clone(&sim);
        let setup_done = Rc::clone(&setup_done);
        sim.spawn_local(
            TaskTag::Harness,
            Box::pin(async move {
                setup(&case, &inboxes).await;
                for (i, ops) in case.clients.iter().enumerate() {
                    let ops = ops.clone();
                    let inbox = Rc::clone(&inboxes[i]);
                    let all = inboxes.clone();
                    let table = Rc::clone(&tables[i]);
                    let done = Rc::clone(&done);
                    sim2.spawn_local(
                        TaskTag::Client(i),
                        Box::pin(async move {
                            run_client(i, ops, table, inbox, all).await;
                            done.borrow_mut()[i] = true;
                        }),
                    );
                }
                setup_done.set(true);
            }),
        );
    }

    let mut flags = RunFlags::default();
    let budget: u64 = 4_000
        + 400 * case.clients.iter().map(|c| c.len() as u64 + 1).sum::<u64>()
        + 400 * case.actors.len() as u64;
    let all_done = |done: &Rc<RefCell<Vec<bool>>>| setup_done.get() && done.borrow().iter().all(|d| *d);

    // ---- run
    let horizon = horizon_of(&case);
    loop {
        if sim.steps.get() > budget {
            flags.inconclusive = true;
            break;
        }
        if all_done(&done) {
            break;
        }
        if sim.step() {
            continue;
        }
        if !sim.advance_time(cx.last_client_time.get() + horizon) {
            // nothing runnable and no timer (or only timers beyond the horizon): the unfinished clients are stuck
            flags.stuck_clients =
                done.borrow().iter().enumerate().filter(|(_, d)| !**d).map(|(i, _)| i).collect();
            break;
        }
    }
    // ---- settle
    cx.log(EvKind::Phase(Phase::Settle));
    let limit = sim.now() + case.settle as u64;
    let settle_budget = sim.steps.get() + budget;
    loop {
        if sim.steps.get() > settle_budget {
            flags.inconclusive = true;
            break;
        }
        if sim.step() {
            continue;
        }
        if !sim.advance_time(limit) {
            break;
        }
    }
    // ---- teardown
    cx.log(EvKind::Phase(Phase::Teardown));
    STASH.with(|s| s.borrow_mut().clear());
    LAZY.with(|s| s.borrow_mut().clear());
    // stuck clients are cancelled first (so that their tables can be emptied below)
    for t in sim.alive_tasks() {
        if let TaskTag::Client(_) = sim.tag_of(t) {
            sim.cancel_now(t);
        }
    }
    for (i, t) in tables.iter().enumerate() {
        if let Ok(mut t) = t.try_borrow_mut() {
            for e in t.drain(..).flatten() {
                drop_held(Some(i), e);
            }
        }
        for e in inboxes[i].borrow_mut().drain(..) {
            drop_held(Some(i), e);
        }
    }
    for (a, addr) in cx.outside.borrow_mut().drain(..) {
        cx.log(EvKind::HandleDrop { client: None, actor: a, kind: HKind::Addr, id: u32::MAX });
        drop(addr);
    }
    cx.exported.borrow_mut().clear();
    let janitor_done = Rc::new(Cell::new(false));
    {
        let jd = Rc::clone(&janitor_done);
        sim.spawn_local(
            TaskTag::Harness,
            Box::pin(async move {
                unregister_all().await;
                jd.set(true);
            }),
        );
    }
    // ---- drain
    cx.log(EvKind::Phase(Phase::Drain));
    let drain_budget = sim.steps.get() + budget;
    let time_limit = sim.now() + 5_000 + 2 * horizon;
    loop {
        if sim.steps.get() > drain_budget {
            flags.not_quiescent = true;
            break;
        }
        if sim.step() {
            continue;
        }
        if sim.pending_timers() == 0 {
            break;
        }
        if !sim.advance_time(time_limit) {
            flags.not_quiescent = true;
            break;
        }
    }
    flags.janitor_stuck = !janitor_done.get();
    cx.log(EvKind::Phase(Phase::End));
    flags.steps = sim.steps.get();
    flags.choices = sim.choices.get();
    flags.end_time = sim.now();
    flags.foreign_panics = sim
        .foreign_panics
        .borrow()
        .iter()
        .map(|(t, m)| (format!("{:?}", sim.tag_of(*t)), m.clone()))
        .collect();
    let tasks = sim.meta.borrow().clone();
    // ---- clean up
    *sim.on_event.borrow_mut() = None;
    sim.drop_all();
    cx.primary.borrow_mut().clear();
    cx.streams.borrow_mut().clear();
    futures::executor::block_on(unregister_all());
    hannibal::verif::install(None);
    install_case(None);
    let hist = std::mem::take(&mut *cx.hist.borrow_mut());
    let actors = cx.actors.borrow().clone();
    RunOutput { hist, tasks, actors, flags }
}

fn steps_sleep(w: &[Step]) -> u64 {
    w.iter()
        .map(|s| match s {
            Step::Sleep(t) => *t as u64,
            Step::AddTimer(t) => t.ticks as u64 + steps_sleep(&t.work),
            _ => 0,
        })
        .sum()
}

/// virtual time after which a still unfinished client is considered stuck
pub fn horizon_of(case: &Case) -> u64 {
    let mut total: u64 = 0;
    let mut max_timer: u64 = 0;
    let mut beh = |b: &Behavior| {
        let mut t = steps_sleep(&b.started) + steps_sleep(&b.stopped) + steps_sleep(&b.finished) + 12 * steps_sleep(&b.aux_work);
        for s in b.started.iter().chain(&b.stopped).chain(&b.finished) {
            if let Step::AddTimer(ts) = s {
                max_timer = max_timer.max(ts.ticks as u64);
            }
        }
        t += 1;
        t
    };
    for a in &case.actors {
        total += beh(&a.beh);
        if let Some((t, _)) = a.spawn.timeout() {
            total += t as u64;
        }
    }
    for b in &case.default_beh {
        total += 3 * beh(b);
    }
    for c in &case.clients {
        for op in c {
            match op {
                ClientOp::Send { work, .. } | ClientOp::Call { work, .. } | ClientOp::CallDrop { work, .. } | ClientOp::SendRepoll { work, .. } | ClientOp::SendDrop { work, .. } => {
                    total += steps_sleep(work);
                    for s in work {
                        if let Step::AddTimer(ts) = s {
                            max_timer = max_timer.max(ts.ticks as u64);
                        }
                    }
                }
                ClientOp::Sleep(t) => total += *t as u64,
                ClientOp::BrokerHalt { .. } => total += 30,
                _ => {}
            }
        }
    }
    2 * total + 3 * max_timer + 60
}

/// `alt`: use the `From` conversions (`From<&Addr>` where it exists, else `From<Addr>`) instead of the
/// `Addr` methods - they are separate code
fn convert(addr: &AnyAddr, kind: HKind, alt: bool) -> Option<H> {
    if alt {
        return match addr {
            AnyAddr::A0(a) => conv_ref(a, kind).or_else(|| convert(addr, kind, false)),
            AnyAddr::A1(a) => conv_ref(a, kind).or_else(|| convert(addr, kind, false)),
        };
    }
    Some(match kind {
        HKind::Addr => H::Addr(addr.clone()),
        HKind::Sender => H::Sender(on_any!(addr, AnyAddr, a => a.sender::<Cast>())),
        HKind::Caller => H::Caller(on_any!(addr, AnyAddr, a => a.caller::<Ask>())),
        HKind::WeakAddr => H::WeakAddr(addr.downgrade()),
        HKind::WeakSender => H::WeakSender(on_any!(addr, AnyAddr, a => a.weak_sender::<Cast>())),
        HKind::WeakCaller => H::WeakCaller(on_any!(addr, AnyAddr, a => a.weak_caller::<Ask>())),
        HKind::Owning => return None,
    })
}

async fn setup(case: &Case, inboxes: &[Inbox]) {
    let n = case.actors.len();
    with_case(|c| *c.primary.borrow_mut() = (0..n).map(|_| None).collect());
    let mut owning: Vec<Option<AnyOwning>> = (0..n).map(|_| None).collect();
    for (slot, spec) in case.actors.iter().enumerate() {
        if spec.parent.is_some() {
            continue;
        }
        // a service registered through the builder's own `register()` terminal (only where it cannot be
        // refused: the first registered slot of its kind)
        if let SpawnSpec::Register { builder: Some(m), timeout } = spec.spawn {
            let first = !case.actors[..slot].iter().any(|s| s.kind == spec.kind && matches!(s.spawn, SpawnSpec::Register { .. }));
            if first && spec.peer.is_none() {
                let beh = std::sync::Arc::new(spec.beh.clone());
                let got = if spec.kind == 0 {
                    crate::probe::register_via_builder::<0>(slot, beh, m, timeout).await.map(|(a, _)| AnyAddr::A0(a))
                } else {
                    crate::probe::register_via_builder::<1>(slot, beh, m, timeout).await.map(|(a, _)| AnyAddr::A1(a))
                };
                log(EvKind::Note(format!("setup-register actor={slot} ok={}", got.is_ok())));
                if let Ok(addr) = got {
                    log(EvKind::HandleNew { client: None, actor: slot, kind: HKind::Addr, id: u32::MAX });
                    with_case(|c| c.primary.borrow_mut()[slot] = Some(addr));
                }
                continue;
            }
        }
        let spawned = spawn_slot(slot);
        let addr = match spawned {
            Spawned::Addr(a) => a,
            Spawned::Owning(o) => {
                let a = on_any!(&o, AnyOwning, o => AnyAddr::from(o.to_addr()));
                owning[slot] = Some(o);
                a
            }
        };
        log(EvKind::HandleNew { client: None, actor: slot, kind: HKind::Addr, id: u32::MAX });
        if let SpawnSpec::Register { .. } = spec.spawn {
            let r = match addr.clone() {
                AnyAddr::A0(a) => a.register().await.map(|_| ()),
                AnyAddr::A1(a) => a.register().await.map(|_| ()),
            };
            log(EvKind::Note(format!("setup-register actor={slot} ok={}", r.is_ok())));
        }
        with_case(|c| c.primary.borrow_mut()[slot] = Some(addr));
    }
    // grants
    for g in &case.grants {
        if g.client >= inboxes.len() {
            continue;
        }
        if g.kind == HKind::Owning {
            if let Some(o) = owning.get_mut(g.actor).and_then(Option::take) {
                inboxes[g.client].borrow_mut().push(new_held(Some(g.client), g.actor, H::Owning(o)));
            }
            continue;
        }
        let Some(addr) = with_case(|c| c.primary.borrow().get(g.actor).and_then(|a| a.clone())) else { continue };
        if let Some(h) = convert(&addr, g.kind, false) {
            inboxes[g.client].borrow_mut().push(new_held(Some(g.client), g.actor, h));
        }
    }
    // un-granted owning addresses and the primaries are dropped now
    for (slot, o) in owning.into_iter().enumerate() {
        if let Some(o) = o {
            log(EvKind::Note(format!("setup-drop-owning actor={slot}")));
            drop(o);
        }
    }
    let prim: Vec<Option<AnyAddr>> = with_case(|c| std::mem::take(&mut *c.primary.borrow_mut()));
    for (slot, a) in prim.into_iter().enumerate() {
        if let Some(a) = a {
            log(EvKind::HandleDrop { client: None, actor: slot, kind: HKind::Addr, id: u32::MAX });
            drop(a);
        }
    }
}

fn absorb(client: usize, table: &mut Table, inbox: &Inbox) {
    for h in inbox.borrow_mut().drain(..) {
        table.push(Some(h));
    }
    if client == 0 {
        // children that are also held outside arrive here once their parent spawned them
        let out: Vec<(ActorId, AnyAddr)> = with_case(|c| std::mem::take(&mut *c.outside.borrow_mut()));
        for (a, addr) in out {
            table.push(Some(new_held(Some(0), a, H::Addr(addr))));
        }
        let exp: Vec<(ActorId, crate::probe::Exported)> = with_case(|c| std::mem::take(&mut *c.exported.borrow_mut()));
        for (a, e) in exp {
            let h = match e {
                crate::probe::Exported::WeakAddr(w) => H::WeakAddr(w),
                crate::probe::Exported::WeakSender(w) => H::WeakSender(w),
                crate::probe::Exported::WeakCaller(w) => H::WeakCaller(w),
            };
            table.push(Some(new_held(Some(0), a, h)));
        }
    }
}

async fn run_client(me: usize, ops: Vec<ClientOp>, table_rc: Rc<RefCell<Table>>, inbox: Inbox, all: Vec<Inbox>) {
    for (opi, op) in ops.iter().enumerate() {
        let mut table = table_rc.borrow_mut();
        absorb(me, &mut table, &inbox);
        exec_op(me, opi, op, &mut table, &all).await;
    }
    // pick up late arrivals so that teardown sees them
    let mut table = table_rc.borrow_mut();
    absorb(me, &mut table, &inbox);
}

fn begin(me: usize, opi: usize, what: OpWhat, held: Option<&Held>, msg: Option<u32>) {
    CUR_OPS.with(|c| {
        let mut v = c.borrow_mut();
        if v.len() <= me {
            v.resize(me + 1, 0);
        }
        v[me] = opi;
    });
    with_case(|c| c.last_client_time.set(c.sim.now()));
    log(EvKind::OpBegin { client: me, op: opi, what, actor: held.map(|h| h.actor), via: held.map(|h| h.h.kind()), msg });
}

fn end(me: usize, opi: usize, res: OpRes, polls: u32) {
    with_case(|c| c.last_client_time.set(c.sim.now()));
    log(EvKind::OpEnd { client: me, op: opi, res, polls });
}

async fn counted<F: Future>(f: F) -> (F::Output, u32) {
    let pending = Rc::new(Cell::new(0));
    let out = CountPolls { f: Box::pin(f), pending: Rc::clone(&pending) }.await;
    (out, pending.get())
}

macro_rules! need {
    ($me:expr, $opi:expr, $table:expr, $h:expr, $pred:expr) => {{
        let c = cands($table, $pred);
        match pick(&c, $h) {
            Some(i) => i,
            None => {
                log(EvKind::OpSkip { client: $me, op: $opi });
                return;
            }
        }
    }};
}

async fn exec_op(me: usize, opi: usize, op: &ClientOp, table: &mut Table, all: &[Inbox]) {
    use HKind as K;
    match op {
        ClientOp::Send { h, work } => {
            let i = need!(me, opi, table, *h, |k| matches!(k, K::Addr | K::Owning | K::Sender | K::WeakSender));
            let held = table[i].as_ref().unwrap();
            let id = msg_id(me, opi);
            let m = Cast { msg: MsgRef::Client(id), work: Arc::new(work.clone()) };
            begin(me, opi, OpWhat::Send, Some(held), Some(id));
            let (r, polls) = match &held.h {
                H::Addr(a) => counted(async { on_any!(a, AnyAddr, a => a.send(m).await) }).await,
                H::Owning(a) => counted(async { on_any!(a, AnyOwning, a => a.send(m).await) }).await,
                H::Sender(s) => counted(s.send(m)).await,
                H::WeakSender(s) => counted(s.try_send(m)).await,
                _ => unreachable!(),
            };
            end(me, opi, res_unit(r), polls);
        }
        ClientOp::Call { h, work } => {
            let i = need!(me, opi, table, *h, |k| matches!(k, K::Addr | K::Owning | K::Caller | K::WeakCaller));
            let held = table[i].as_ref().unwrap();
            let id = msg_id(me, opi);
            let m = Ask { msg: MsgRef::Client(id), work: Arc::new(work.clone()) };
            begin(me, opi, OpWhat::Call, Some(held), Some(id));
            let (r, polls) = match &held.h {
                H::Addr(a) => counted(async { on_any!(a, AnyAddr, a => a.call(m).await) }).await,
                H::Owning(a) => counted(async { on_any!(a, AnyOwning, a => a.call(m).await) }).await,
                H::Caller(s) => counted(s.call(m)).await,
                H::WeakCaller(s) => counted(s.try_call(m)).await,
                _ => unreachable!(),
            };
            end(me, opi, res_reply(r), polls);
        }
        ClientOp::SendDrop { h, work, polls } => {
            let i = need!(me, opi, table, *h, |k| matches!(k, K::Addr | K::Owning | K::Sender | K::WeakSender));
            let held = table[i].as_ref().unwrap();
            let id = msg_id(me, opi);
            let m = Cast { msg: MsgRef::Client(id), work: Arc::new(work.clone()) };
            begin(me, opi, OpWhat::SendAbandoned, Some(held), Some(id));
            let fut: Pin<Box<dyn Future<Output = Result<(), hannibal::error::ActorError>> + '_>> = match &held.h {
                H::Addr(a) => Box::pin(async move { on_any!(a, AnyAddr, a => a.send(m).await) }),
                H::Owning(a) => Box::pin(async move { on_any!(a, AnyOwning, a => a.send(m).await) }),
                H::Sender(s) => Box::pin(s.send(m)),
                H::WeakSender(s) => Box::pin(s.try_send(m)),
                _ => unreachable!(),
            };
            match (PollThenDrop { f: Some(fut), left: *polls as u32 + 1 }).await {
                Some(r) => end(me, opi, res_unit(r), *polls as u32),
                None => end(me, opi, OpRes::Abandoned, *polls as u32),
            }
        }
        ClientOp::SendRepoll { h, work, extra } => {
            let i = need!(me, opi, table, *h, |k| matches!(k, K::Addr | K::Owning | K::Sender | K::WeakSender));
            let held = table[i].as_ref().unwrap();
            let id = msg_id(me, opi);
            let m = Cast { msg: MsgRef::Client(id), work: Arc::new(work.clone()) };
            begin(me, opi, OpWhat::Send, Some(held), Some(id));
            let fut: Pin<Box<dyn Future<Output = Result<(), hannibal::error::ActorError>> + '_>> = match &held.h {
                H::Addr(a) => Box::pin(async move { on_any!(a, AnyAddr, a => a.send(m).await) }),
                H::Owning(a) => Box::pin(async move { on_any!(a, AnyOwning, a => a.send(m).await) }),
                H::Sender(s) => Box::pin(s.send(m)),
                H::WeakSender(s) => Box::pin(s.try_send(m)),
                _ => unreachable!(),
            };
            let (r, polls) = counted(Repoll { f: fut, extra: *extra as u32 }).await;
            end(me, opi, res_unit(r), polls);
        }
        ClientOp::JoinDiscard { h } => {
            let i = need!(me, opi, table, *h, |k| k == K::Owning);
            let held = table[i].as_mut().unwrap();
            begin(me, opi, OpWhat::JoinDiscard, Some(held), None);
            let H::Owning(o) = &mut held.h else { unreachable!() };
            match o {
                AnyOwning::A0(o) => drop(o.join()),
                AnyOwning::A1(o) => drop(o.join()),
            }
            end(me, opi, OpRes::Ok, 0);
        }
        ClientOp::RegisterHeld { h } => {
            let i = need!(me, opi, table, *h, |k| k == K::Addr);
            let held = table[i].as_ref().unwrap();
            let H::Addr(a) = &held.h else { unreachable!() };
            let actor = held.actor;
            let kind = match a {
                AnyAddr::A0(_) => 0u8,
                AnyAddr::A1(_) => 1u8,
            };
            log(EvKind::OpBegin { client: me, op: opi, what: OpWhat::Reg(RegOp::Register, kind), actor: None, via: None, msg: None });
            let a = a.clone();
            let (res, polls) = counted(async move {
                match a {
                    AnyAddr::A0(a) => register_held(a, actor).await,
                    AnyAddr::A1(a) => register_held(a, actor).await,
                }
            })
            .await;
            end(me, opi, OpRes::Reg(res), polls);
        }
        ClientOp::JoinStash { h } => {
            let i = need!(me, opi, table, *h, |k| k == K::Owning);
            let held = table[i].as_mut().unwrap();
            begin(me, opi, OpWhat::JoinStash, Some(held), None);
            let H::Owning(o) = &mut held.h else { unreachable!() };
            let mut f: Pin<Box<dyn Future<Output = ()>>> = match o {
                AnyOwning::A0(o) => {
                    let f = o.join();
                    Box::pin(async move {
                        let _ = f.await;
                    })
                }
                AnyOwning::A1(o) => {
                    let f = o.join();
                    Box::pin(async move {
                        let _ = f.await;
                    })
                }
            };
            // one poll, then it stays alive (unpolled) in the client's stash
            let done = futures::future::poll_fn(|cx| Poll::Ready(f.as_mut().poll(cx).is_ready())).await;
            if !done {
                STASH.with(|s| s.borrow_mut().push(f));
            }
            end(me, opi, OpRes::Bool(done), 0);
        }
        ClientOp::CallDrop { h, work, polls } => {
            let i = need!(me, opi, table, *h, |k| matches!(k, K::Addr | K::Owning | K::Caller | K::WeakCaller));
            let held = table[i].as_ref().unwrap();
            let id = msg_id(me, opi);
            let m = Ask { msg: MsgRef::Client(id), work: Arc::new(work.clone()) };
            begin(me, opi, OpWhat::CallAbandoned, Some(held), Some(id));
            let fut: Pin<Box<dyn Future<Output = Result<Reply, hannibal::error::ActorError>> + '_>> = match &held.h {
                H::Addr(a) => Box::pin(async move { on_any!(a, AnyAddr, a => a.call(m).await) }),
                H::Owning(a) => Box::pin(async move { on_any!(a, AnyOwning, a => a.call(m).await) }),
                H::Caller(s) => Box::pin(s.call(m)),
                H::WeakCaller(s) => Box::pin(s.try_call(m)),
                _ => unreachable!(),
            };
            let r = PollThenDrop { f: Some(fut), left: *polls as u32 + 1 }.await;
            match r {
                Some(r) => {
                    // it resolved before the client gave up: an ordinary call
                    end(me, opi, res_reply(r), *polls as u32);
                }
                None => end(me, opi, OpRes::Abandoned, *polls as u32),
            }
        }
        ClientOp::Ping { h } => {
            let i = need!(me, opi, table, *h, |k| matches!(k, K::Addr | K::Owning));
            let held = table[i].as_ref().unwrap();
            begin(me, opi, OpWhat::Ping, Some(held), None);
            let (r, polls) = match &held.h {
                H::Addr(a) => counted(async { on_any!(a, AnyAddr, a => a.ping().await) }).await,
                H::Owning(a) => counted(async { on_any!(a, AnyOwning, a => a.ping().await) }).await,
                _ => unreachable!(),
            };
            end(me, opi, res_unit(r), polls);
        }
        ClientOp::Stop { h } => {
            let i = need!(me, opi, table, *h, |k| k == K::Addr);
            let held = table[i].as_mut().unwrap();
            begin(me, opi, OpWhat::Stop, Some(held), None);
            let r = match &mut held.h {
                H::Addr(a) => on_any!(a, AnyAddr, a => a.stop()),
                _ => unreachable!(),
            };
            end(me, opi, res_unit(r), 0);
        }
        ClientOp::Halt { h } => {
            let i = need!(me, opi, table, *h, |k| k == K::Addr);
            let held = table[i].as_ref().unwrap();
            begin(me, opi, OpWhat::Halt, Some(held), None);
            let H::Addr(a) = &held.h else { unreachable!() };
            let a = a.clone();
            let (r, polls) = counted(async move { on_any!(a, AnyAddr, a => a.halt().await) }).await;
            end(me, opi, res_unit(r), polls);
        }
        ClientOp::TryStop { h } => {
            let i = need!(me, opi, table, *h, |k| k == K::WeakAddr);
            let held = table[i].as_mut().unwrap();
            begin(me, opi, OpWhat::TryStop, Some(held), None);
            let r = match &mut held.h {
                H::WeakAddr(a) => on_any!(a, AnyWeak, a => a.try_stop()),
                _ => unreachable!(),
            };
            end(me, opi, res_unit(r), 0);
        }
        ClientOp::TryHalt { h } => {
            let i = need!(me, opi, table, *h, |k| k == K::WeakAddr);
            let held = table[i].as_mut().unwrap();
            begin(me, opi, OpWhat::TryHalt, Some(held), None);
            let (r, polls) = match &mut held.h {
                H::WeakAddr(a) => counted(async { on_any!(a, AnyWeak, a => a.try_halt().await) }).await,
                _ => unreachable!(),
            };
            end(me, opi, res_unit(r), polls);
        }
        ClientOp::Restart { h } => {
            let i = need!(me, opi, table, *h, |k| k == K::Addr);
            let held = table[i].as_mut().unwrap();
            // never restart a stream-attached actor (documented panic)
            if with_case(|c| c.actors.borrow()[held.actor].stream) {
                log(EvKind::OpSkip { client: me, op: opi });
                return;
            }
            begin(me, opi, OpWhat::Restart, Some(held), None);
            let r = match &mut held.h {
                H::Addr(a) => on_any!(a, AnyAddr, a => a.restart()),
                _ => unreachable!(),
            };
            end(me, opi, res_unit(r), 0);
        }
        ClientOp::AwaitClone { h } => {
            let i = need!(me, opi, table, *h, |k| matches!(k, K::Addr | K::Owning));
            let held = table[i].as_ref().unwrap();
            begin(me, opi, OpWhat::AwaitClone, Some(held), None);
            let a: AnyAddr = match &held.h {
                H::Addr(a) => a.clone(),
                H::Owning(o) => on_any!(o, AnyOwning, o => AnyAddr::from(o.to_addr())),
                _ => unreachable!(),
            };
            let (r, polls) = counted(async move { on_any!(a, AnyAddr, a => a.await) }).await;
            end(me, opi, res_unit(r), polls);
        }
        ClientOp::Join { h } => {
            let i = need!(me, opi, table, *h, |k| k == K::Owning);
            let held = table[i].as_mut().unwrap();
            begin(me, opi, OpWhat::Join, Some(held), None);
            let H::Owning(o) = &mut held.h else { unreachable!() };
            let (r, polls) = match o {
                AnyOwning::A0(o) => {
                    let f = o.join();
                    counted(async move { f.await.map(|p| p.final_value()) }).await
                }
                AnyOwning::A1(o) => {
                    let f = o.join();
                    counted(async move { f.await.map(|p| p.final_value()) }).await
                }
            };
            end(me, opi, OpRes::Joined(r), polls);
        }
        ClientOp::Consume { h } => {
            let i = need!(me, opi, table, *h, |k| k == K::Owning);
            let held = table[i].take().unwrap();
            begin(me, opi, OpWhat::Consume, Some(&held), None);
            let (actor, id) = (held.actor, held.id);
            let H::Owning(o) = held.h else { unreachable!() };
            let (r, polls) = match o {
                AnyOwning::A0(o) => counted(async move { o.consume().await.map(|p| p.final_value()) }).await,
                AnyOwning::A1(o) => counted(async move { o.consume().await.map(|p| p.final_value()) }).await,
            };
            log(EvKind::HandleDrop { client: Some(me), actor, kind: K::Owning, id });
            end(
                me,
                opi,
                match r {
                    Ok(v) => OpRes::Joined(Some(v)),
                    Err(e) => OpRes::Err(err_str(e)),
                },
                polls,
            );
        }
        ClientOp::ConsumeSync { h } => {
            let i = need!(me, opi, table, *h, |k| k == K::Owning);
            let held = table[i].take().unwrap();
            begin(me, opi, OpWhat::ConsumeSync, Some(&held), None);
            let (actor, id) = (held.actor, held.id);
            let H::Owning(o) = held.h else { unreachable!() };
            let (r, polls) = match o {
                AnyOwning::A0(o) => match o.consume_sync() {
                    Ok(f) => counted(async move { Ok(f.await.map(|p| p.final_value())) }).await,
                    Err(e) => (Err(err_str(e)), 0),
                },
                AnyOwning::A1(o) => match o.consume_sync() {
                    Ok(f) => counted(async move { Ok(f.await.map(|p| p.final_value())) }).await,
                    Err(e) => (Err(err_str(e)), 0),
                },
            };
            log(EvKind::HandleDrop { client: Some(me), actor, kind: K::Owning, id });
            end(
                me,
                opi,
                match r {
                    Ok(v) => OpRes::Joined(v),
                    Err(e) => OpRes::Err(e),
                },
                polls,
            );
        }
        ClientOp::JoinPollDrop { h } => {
            let i = need!(me, opi, table, *h, |k| k == K::Owning);
            let held = table[i].as_mut().unwrap();
            begin(me, opi, OpWhat::JoinStash, Some(held), None);
            let H::Owning(o) = &mut held.h else { unreachable!() };
            let mut f: Pin<Box<dyn Future<Output = ()>>> = match o {
                AnyOwning::A0(o) => {
                    let f = o.join();
                    Box::pin(async move {
                        let _ = f.await;
                    })
                }
                AnyOwning::A1(o) => {
                    let f = o.join();
                    Box::pin(async move {
                        let _ = f.await;
                    })
                }
            };
            let done = futures::future::poll_fn(|cx| Poll::Ready(f.as_mut().poll(cx).is_ready())).await;
            drop(f);
            end(me, opi, OpRes::Bool(done), 0);
        }
        ClientOp::JoinLazyDetach { h } => {
            let i = need!(me, opi, table, *h, |k| k == K::Owning);
            let mut held = table[i].take().unwrap();
            begin(me, opi, OpWhat::Detach, Some(&held), None);
            let (actor, id) = (held.actor, held.id);
            let H::Owning(o) = &mut held.h else { unreachable!() };
            let f: Pin<Box<dyn Future<Output = Option<FinalValue>>>> = match o {
                AnyOwning::A0(o) => {
                    let f = o.join();
                    Box::pin(async move { f.await.map(|p| p.final_value()) })
                }
                AnyOwning::A1(o) => {
                    let f = o.join();
                    Box::pin(async move { f.await.map(|p| p.final_value()) })
                }
            };
            LAZY.with(|s| s.borrow_mut().push((me, actor, f)));
            let H::Owning(o) = held.h else { unreachable!() };
            let a = on_any!(o, AnyOwning, o => AnyAddr::from(o.detach()));
            log(EvKind::HandleDrop { client: Some(me), actor, kind: K::Owning, id });
            table.push(Some(new_held(Some(me), actor, H::Addr(a))));
            end(me, opi, OpRes::Made(K::Addr), 0);
        }
        ClientOp::AwaitLazy => {
            let taken = LAZY.with(|s| {
                let mut v = s.borrow_mut();
                v.iter().position(|x| x.0 == me).map(|p| v.remove(p))
            });
            let Some((_, actor, f)) = taken else {
                log(EvKind::OpSkip { client: me, op: opi });
                return;
            };
            CUR_OPS.with(|c| {
                let mut v = c.borrow_mut();
                if v.len() <= me {
                    v.resize(me + 1, 0);
                }
                v[me] = opi;
            });
            log(EvKind::OpBegin { client: me, op: opi, what: OpWhat::Join, actor: Some(actor), via: Some(K::Owning), msg: None });
            let (r, polls) = counted(f).await;
            end(me, opi, OpRes::Joined(r), polls);
        }
        ClientOp::Detach { h } => {
            let i = need!(me, opi, table, *h, |k| k == K::Owning);
            let held = table[i].take().unwrap();
            begin(me, opi, OpWhat::Detach, Some(&held), None);
            let (actor, id) = (held.actor, held.id);
            let H::Owning(o) = held.h else { unreachable!() };
            let a = on_any!(o, AnyOwning, o => AnyAddr::from(o.detach()));
            log(EvKind::HandleDrop { client: Some(me), actor, kind: K::Owning, id });
            table.push(Some(new_held(Some(me), actor, H::Addr(a))));
            end(me, opi, OpRes::Made(K::Addr), 0);
        }
        ClientOp::Clone { h } => {
            let i = need!(me, opi, table, *h, |k| k != K::Owning);
            let held = table[i].as_ref().unwrap();
            begin(me, opi, OpWhat::Clone, Some(held), None);
            let nh = match &held.h {
                H::Addr(a) => H::Addr(a.clone()),
                H::Sender(a) => H::Sender(a.clone()),
                H::Caller(a) => H::Caller(a.clone()),
                H::WeakAddr(a) => H::WeakAddr(a.clone()),
                H::WeakSender(a) => H::WeakSender(a.clone()),
                H::WeakCaller(a) => H::WeakCaller(a.clone()),
                H::Owning(_) => unreachable!(),
            };
            let k = nh.kind();
            let actor = held.actor;
            table.push(Some(new_held(Some(me), actor, nh)));
            end(me, opi, OpRes::Made(k), 0);
        }
        ClientOp::Downgrade { h } => {
            let i = need!(me, opi, table, *h, |k| matches!(k, K::Addr | K::Sender | K::Caller));
            let held = table[i].as_ref().unwrap();
            begin(me, opi, OpWhat::Downgrade, Some(held), None);
            let nh = match &held.h {
                H::Addr(a) => H::WeakAddr(a.downgrade()),
                H::Sender(a) => H::WeakSender(a.downgrade()),
                H::Caller(a) => H::WeakCaller(a.downgrade()),
                _ => unreachable!(),
            };
            let k = nh.kind();
            let actor = held.actor;
            table.push(Some(new_held(Some(me), actor, nh)));
            end(me, opi, OpRes::Made(k), 0);
        }
        ClientOp::Upgrade { h } => {
            let i = need!(me, opi, table, *h, |k| matches!(k, K::WeakAddr | K::WeakSender | K::WeakCaller));
            let held = table[i].as_ref().unwrap();
            begin(me, opi, OpWhat::Upgrade, Some(held), None);
            let nh = match &held.h {
                H::WeakAddr(a) => match a {
                    AnyWeak::A0(a) => a.upgrade().map(|a| H::Addr(AnyAddr::A0(a))),
                    AnyWeak::A1(a) => a.upgrade().map(|a| H::Addr(AnyAddr::A1(a))),
                },
                H::WeakSender(a) => a.upgrade().map(H::Sender),
                H::WeakCaller(a) => a.upgrade().map(H::Caller),
                _ => unreachable!(),
            };
            let actor = held.actor;
            let ok = nh.is_some();
            if let Some(nh) = nh {
                table.push(Some(new_held(Some(me), actor, nh)));
            }
            end(me, opi, OpRes::Opt(ok), 0);
        }
        ClientOp::ToSender { h } | ClientOp::ToCaller { h } | ClientOp::ToWeakSender { h } | ClientOp::ToWeakCaller { h } => {
            let i = need!(me, opi, table, *h, |k| matches!(k, K::Addr | K::Owning));
            let held = table[i].as_ref().unwrap();
            let (what, kind) = match op {
                ClientOp::ToSender { .. } => (OpWhat::ToSender, K::Sender),
                ClientOp::ToCaller { .. } => (OpWhat::ToCaller, K::Caller),
                ClientOp::ToWeakSender { .. } => (OpWhat::ToWeakSender, K::WeakSender),
                _ => (OpWhat::ToWeakCaller, K::WeakCaller),
            };
            begin(me, opi, what, Some(held), None);
            let nh = match &held.h {
                H::Addr(a) => convert(a, kind, opi % 2 == 1),
                H::Owning(o) => {
                    // through `as_addr()`: no temporary strong handle
                    match o {
                        AnyOwning::A0(o) => if opi % 2 == 1 { conv_ref(o.as_addr(), kind) } else { conv_meth(o.as_ref(), kind) },
                        AnyOwning::A1(o) => if opi % 2 == 1 { conv_ref(o.as_addr(), kind) } else { conv_meth(o.as_ref(), kind) },
                    }
                }
                _ => unreachable!(),
            };
            let actor = held.actor;
            if let Some(nh) = nh {
                table.push(Some(new_held(Some(me), actor, nh)));
            }
            end(me, opi, OpRes::Made(kind), 0);
        }
        ClientOp::ToAddr { h } => {
            let i = need!(me, opi, table, *h, |k| k == K::Owning);
            let held = table[i].as_ref().unwrap();
            begin(me, opi, OpWhat::ToAddr, Some(held), None);
            let H::Owning(o) = &held.h else { unreachable!() };
            let a = on_any!(o, AnyOwning, o => AnyAddr::from(o.to_addr()));
            let actor = held.actor;
            table.push(Some(new_held(Some(me), actor, H::Addr(a))));
            end(me, opi, OpRes::Made(K::Addr), 0);
        }
        ClientOp::Drop { h } => {
            let i = need!(me, opi, table, *h, |_| true);
            let held = table[i].take().unwrap();
            begin(me, opi, OpWhat::Drop, Some(&held), None);
            drop_held(Some(me), held);
            end(me, opi, OpRes::Ok, 0);
        }
        ClientOp::Give { h, to } => {
            if all.len() < 2 {
                log(EvKind::OpSkip { client: me, op: opi });
                return;
            }
            let i = need!(me, opi, table, *h, |_| true);
            let to = (*to as usize) % all.len();
            if to == me {
                log(EvKind::OpSkip { client: me, op: opi });
                return;
            }
            let held = table[i].take().unwrap();
            begin(me, opi, OpWhat::Give, Some(&held), None);
            log(EvKind::HandleMove { from: me, to, id: held.id });
            all[to].borrow_mut().push(held);
            end(me, opi, OpRes::Ok, 0);
        }
        ClientOp::QueryStopped { h } => {
            let i = need!(me, opi, table, *h, |k| matches!(k, K::Addr | K::WeakAddr));
            let held = table[i].as_ref().unwrap();
            begin(me, opi, OpWhat::QueryStopped, Some(held), None);
            let r = match &held.h {
                H::Addr(a) => on_any!(a, AnyAddr, a => a.stopped()),
                H::WeakAddr(a) => on_any!(a, AnyWeak, a => a.stopped()),
                _ => unreachable!(),
            };
            end(me, opi, OpRes::Bool(r), 0);
        }
        ClientOp::QueryRunning { h } => {
            let i = need!(me, opi, table, *h, |k| k == K::Addr);
            let held = table[i].as_ref().unwrap();
            begin(me, opi, OpWhat::QueryRunning, Some(held), None);
            let r = match &held.h {
                H::Addr(a) => on_any!(a, AnyAddr, a => a.running()),
                _ => unreachable!(),
            };
            end(me, opi, OpRes::Bool(r), 0);
        }
        ClientOp::Reg { op: rop, kind } => {
            let kind = *kind % 2;
            log(EvKind::OpBegin { client: me, op: opi, what: OpWhat::Reg(*rop, kind), actor: None, via: None, msg: None });
            let (res, polls) = if kind == 0 {
                counted(reg_op::<0>(me, *rop, table, opi % 2 == 1)).await
            } else {
                counted(reg_op::<1>(me, *rop, table, opi % 2 == 1)).await
            };
            end(me, opi, OpRes::Reg(res), polls);
        }
        ClientOp::Publish { how, topic, id } => {
            let topic = *topic % 2;
            log(EvKind::OpBegin { client: me, op: opi, what: OpWhat::Publish(topic), actor: None, via: None, msg: Some(*id) });
            let (r, polls) = match (how, topic) {
                (PubHow::Static, 0) => counted(Broker::publish(Topic::<0> { id: *id })).await,
                (PubHow::Static, _) => counted(Broker::publish(Topic::<1> { id: *id })).await,
                (PubHow::ViaAddr, 0) => {
                    counted(async { Broker::<Topic<0>>::from_registry().await.publish(Topic::<0> { id: *id }).await }).await
                }
                (PubHow::ViaAddr, _) => {
                    counted(async { Broker::<Topic<1>>::from_registry().await.publish(Topic::<1> { id: *id }).await }).await
                }
            };
            end(me, opi, res_unit(r), polls);
        }
        ClientOp::SubscribeFor { h, topic } | ClientOp::UnsubscribeFor { h, topic } => {
            let sub = matches!(op, ClientOp::SubscribeFor { .. });
            let topic = *topic % 2;
            let i = need!(me, opi, table, *h, |k| k == K::Addr);
            let held = table[i].as_ref().unwrap();
            begin(me, opi, if sub { OpWhat::Subscribe(topic) } else { OpWhat::Unsubscribe(topic) }, Some(held), None);
            let H::Addr(a) = &held.h else { unreachable!() };
            let (r, polls) = if topic == 0 {
                // four routes to the same weak sender: they must all identify the same subscriber
                let ws = on_any!(a, AnyAddr, a => match opi % 4 {
                    0 => a.weak_sender::<Topic<0>>(),
                    1 => hannibal::WeakSender::<Topic<0>>::from(a),
                    2 => a.sender::<Topic<0>>().downgrade(),
                    _ => hannibal::Sender::<Topic<0>>::from(a).downgrade(),
                });
                counted(async move {
                    if sub {
                        Broker::subscribe(ws).await
                    } else {
                        Broker::<Topic<0>>::from_registry().await.unsubscribe(ws).await
                    }
                })
                .await
            } else {
                // four routes to the same weak sender: they must all identify the same subscriber
                let ws = on_any!(a, AnyAddr, a => match opi % 4 {
                    0 => a.weak_sender::<Topic<1>>(),
                    1 => hannibal::WeakSender::<Topic<1>>::from(a),
                    2 => a.sender::<Topic<1>>().downgrade(),
                    _ => hannibal::Sender::<Topic<1>>::from(a).downgrade(),
                });
                counted(async move {
                    if sub {
                        Broker::subscribe(ws).await
                    } else {
                        Broker::<Topic<1>>::from_registry().await.unsubscribe(ws).await
                    }
                })
                .await
            };
            end(me, opi, res_unit(r), polls);
        }
        ClientOp::BrokerPing { topic } => {
            let topic = *topic % 2;
            log(EvKind::OpBegin { client: me, op: opi, what: OpWhat::BrokerPing(topic), actor: None, via: None, msg: None });
            let (r, polls) = if topic == 0 {
                counted(async { Broker::<Topic<0>>::from_registry().await.ping().await }).await
            } else {
                counted(async { Broker::<Topic<1>>::from_registry().await.ping().await }).await
            };
            end(me, opi, res_unit(r), polls);
        }
        ClientOp::BrokerHalt { topic, wait } => {
            let topic = *topic % 2;
            log(EvKind::OpBegin { client: me, op: opi, what: OpWhat::BrokerHalt(topic), actor: None, via: None, msg: None });
            async fn halt<T: hannibal::Message<Response = ()> + Clone>(wait: bool) -> bool {
                let mut b = Broker::<T>::from_registry().await;
                if b.stop().is_err() {
                    return b.stopped();
                }
                if wait {
                    let probe = b.clone();
                    let _ = b.await;
                    return probe.stopped();
                }
                // nobody awaits it: the termination has to show in stopped() on its own
                for _ in 0..30 {
                    if b.stopped() {
                        return true;
                    }
                    let f = with_case(|c| c.sim.sleep_ticks(1));
                    f.await;
                }
                b.stopped()
            }
            let gone = if topic == 0 { halt::<Topic<0>>(*wait).await } else { halt::<Topic<1>>(*wait).await };
            end(me, opi, OpRes::Bool(gone), 0);
        }
        ClientOp::Feed { stream, n } => {
            let ctl = with_case(|c| {
                let s = c.streams.borrow();
                if s.is_empty() { None } else { Some(s[(*stream as usize * s.len()) >> 8].clone()) }
            });
            let Some(ctl) = ctl else {
                log(EvKind::OpSkip { client: me, op: opi });
                return;
            };
            log(EvKind::OpBegin { client: me, op: opi, what: OpWhat::Feed, actor: Some(ctl.actor), via: None, msg: Some(*n as u32) });
            ctl.feed(*n as u32);
            end(me, opi, OpRes::Ok, 0);
        }
        ClientOp::EndStream { stream } => {
            let ctl = with_case(|c| {
                let s = c.streams.borrow();
                if s.is_empty() { None } else { Some(s[(*stream as usize * s.len()) >> 8].clone()) }
            });
            let Some(ctl) = ctl else {
                log(EvKind::OpSkip { client: me, op: opi });
                return;
            };
            log(EvKind::OpBegin { client: me, op: opi, what: OpWhat::EndStream, actor: Some(ctl.actor), via: None, msg: None });
            ctl.end();
            end(me, opi, OpRes::Ok, 0);
        }
        ClientOp::Sleep(t) => {
            log(EvKind::OpBegin { client: me, op: opi, what: OpWhat::Sleep, actor: None, via: None, msg: Some(*t) });
            let f = with_case(|c| c.sim.sleep_ticks(*t as u64));
            f.await;
            end(me, opi, OpRes::Ok, 0);
        }
        ClientOp::Yield => {
            log(EvKind::OpBegin { client: me, op: opi, what: OpWhat::Yield, actor: None, via: None, msg: None });
            yield_now().await;
            end(me, opi, OpRes::Ok, 0);
        }
    }
}

/// conversions through the `From` impls
fn conv_ref<const K: u8>(a: &Addr<Probe<K>>, kind: HKind) -> Option<H> {
    Some(match kind {
        HKind::Sender => H::Sender(hannibal::Sender::<Cast>::from(a)),
        HKind::Caller => H::Caller(hannibal::Caller::<Ask>::from(a.clone())),
        HKind::WeakSender => H::WeakSender(hannibal::WeakSender::<Cast>::from(a)),
        HKind::WeakCaller => H::WeakCaller(hannibal::WeakCaller::<Ask>::from(a)),
        _ => return None,
    })
}

/// conversions through the `Addr` methods
fn conv_meth<const K: u8>(a: &Addr<Probe<K>>, kind: HKind) -> Option<H> {
    Some(match kind {
        HKind::Sender => H::Sender(a.sender::<Cast>()),
        HKind::Caller => H::Caller(a.caller::<Ask>()),
        HKind::WeakSender => H::WeakSender(a.weak_sender::<Cast>()),
        HKind::WeakCaller => H::WeakCaller(a.weak_caller::<Ask>()),
        _ => return None,
    })
}

async fn ident_of<const K: u8>(a: &Addr<Probe<K>>) -> Ident
where
    Probe<K>: Wrap,
{
    <Probe<K> as Wrap>::addr(a.clone()).identify().await
}

/// identity without a call: only possible for handles the harness created itself
async fn reg_op<const K: u8>(me: usize, rop: RegOp, table: &mut Table, alt: bool) -> RegRes
where
    Probe<K>: Wrap,
{
    if rop == RegOp::Register && alt {
        // the builder's `register()` terminal: spawn + register in one call
        let actor = with_case(|c| c.new_actor(K, Origin::RegOp));
        let beh = with_case(|c| std::sync::Arc::new(c.case.default_beh.get(K as usize).cloned().unwrap_or_default()));
        let mailbox = if actor % 3 == 0 { Mailbox::Bounded(2) } else { Mailbox::Unbounded };
        return match crate::probe::register_via_builder::<K>(actor, beh, mailbox, None).await {
            Ok((me_addr, replaced)) => {
                table.push(Some(new_held(Some(me), actor, H::Addr(<Probe<K> as Wrap>::addr(me_addr)))));
                let replaced = match replaced {
                    Some(r) => Some(actor_of(&r).await),
                    None => None,
                };
                RegRes::Registered { me: actor, replaced: replaced.map(|x| x.unwrap_or(usize::MAX)) }
            }
            Err(err) => RegRes::RegisterErr { me: actor, err },
        };
    }
    match rop {
        RegOp::FromRegistry => {
            let a = Probe::<K>::from_registry().await;
            let id = ident_of(&a).await;
            let actor = match &id {
                Ident::Live { actor, .. } => Some(*actor),
                _ => None,
            };
            if let Some(actor) = actor {
                table.push(Some(new_held(Some(me), actor, H::Addr(<Probe<K> as Wrap>::addr(a)))));
            }
            RegRes::Got(id)
        }
        RegOp::Setup => {
            let r = Probe::<K>::setup().await;
            let _ = r;
            RegRes::Got(Ident::Dead { actor: None })
        }
        RegOp::Register | RegOp::Replace => {
            let (actor, addr) = spawn_fresh(K);
            let me_addr = match (&addr, K) {
                (AnyAddr::A0(a), 0) => any_cast::<0, K>(a.clone()),
                (AnyAddr::A1(a), 1) => any_cast::<1, K>(a.clone()),
                _ => unreachable!(),
            };
            table.push(Some(new_held(Some(me), actor, H::Addr(addr))));
            if rop == RegOp::Register {
                match me_addr.register().await {
                    Ok((_me, replaced)) => {
                        let replaced = match replaced {
                            Some(r) => Some(actor_of(&r).await),
                            None => None,
                        };
                        RegRes::Registered { me: actor, replaced: replaced.map(|x| x.unwrap_or(usize::MAX)) }
                    }
                    Err(e) => RegRes::RegisterErr { me: actor, err: err_str(e) },
                }
            } else {
                let prev = me_addr.replace().await;
                let prev = match prev {
                    Some(r) => Some(actor_of(&r).await.unwrap_or(usize::MAX)),
                    None => None,
                };
                RegRes::Prev { me: Some(actor), prev }
            }
        }
        RegOp::Unregister => {
            let prev = Addr::<Probe<K>>::unregister().await;
            let prev = match prev {
                Some(r) => Some(actor_of(&r).await.unwrap_or(usize::MAX)),
                None => None,
            };
            RegRes::Prev { me: None, prev }
        }
        RegOp::TryFromRegistry => match Probe::<K>::try_from_registry() {
            Some(a) => {
                let id = ident_of(&a).await;
                if let Ident::Live { actor, .. } = &id {
                    table.push(Some(new_held(Some(me), *actor, H::Addr(<Probe<K> as Wrap>::addr(a)))));
                }
                RegRes::TryGot(Some(id))
            }
            None => RegRes::TryGot(None),
        },
        RegOp::AlreadyRunning => RegRes::Running(Probe::<K>::already_running().await),
    }
}

async fn register_held<const K: u8>(a: Addr<Probe<K>>, actor: ActorId) -> RegRes
where
    Probe<K>: Wrap,
{
    match a.register().await {
        Ok((_me, replaced)) => {
            let replaced = match replaced {
                Some(r) => Some(actor_of(&r).await.unwrap_or(usize::MAX)),
                None => None,
            };
            RegRes::Registered { me: actor, replaced }
        }
        Err(e) => RegRes::RegisterErr { me: actor, err: err_str(e) },
    }
}

/// which actor does this address belong to?  Live instances answer a call; for dead ones the
/// harness cannot tell (usize::MAX is reported by the callers).  The handle is one the registry
/// handed out (previous entry): it is also used like any other Addr - liveness queries on it, its
/// clone and its weak form, and for a dead one an await - and what it says must be consistent.
async fn actor_of<const K: u8>(a: &Addr<Probe<K>>) -> Option<ActorId>
where
    Probe<K>: Wrap,
{
    let stopped_first = a.stopped();
    let weak_stopped_first = a.downgrade().stopped();
    let id = ident_of(a).await;
    match id {
        Ident::Live { actor, .. } => {
            if stopped_first || weak_stopped_first {
                log(EvKind::Note(format!("INCONSISTENT previous registry entry (actor {actor}): stopped()={stopped_first} / weak stopped()={weak_stopped_first}, yet it answered a call afterwards")));
            }
            Some(actor)
        }
        Ident::Dead { .. } => {
            // terminated (or terminating): the await resolves, and from then on every handle says stopped
            let _ = a.clone().await;
            let (s, r, w, c) = (a.stopped(), a.running(), a.downgrade().stopped(), a.clone().stopped());
            if !s || r || !w || !c {
                log(EvKind::Note(format!("INCONSISTENT previous registry entry: awaiting it resolved, afterwards stopped()={s} running()={r} weak stopped()={w} clone stopped()={c}")));
            }
            None
        }
    }
}

fn any_cast<const FROM: u8, const TO: u8>(a: Addr<Probe<FROM>>) -> Addr<Probe<TO>> {
    // FROM == TO is guaranteed by the caller; go through Any to convince the type checker
    let b: Box<dyn std::any::Any> = Box::new(a);
    *b.downcast::<Addr<Probe<TO>>>().expect("same kind")
}
