//! The data-driven probe actor, its messages, and the spawn helpers.
use std::{
    collections::VecDeque,
    pin::Pin,
    sync::{
        Arc, Mutex,
        atomic::{AtomicU32, Ordering},
    },
    task::{Context as TaskCx, Poll, Waker},
    time::Duration,
};

use hannibal::{
    Actor, Addr, Context, DynResult, Handler, Message, OwningAddr, RestartableActor, Service,
    StreamHandler, WeakAddr,
    spawner::{DefaultSpawnable, Spawnable, StreamSpawnable, TokioSpawner},
};

use crate::{
    ctx::{log, with_case},
    history::*,
    model::*,
    sim::{InjectedPanic, TaskTag, yield_now},
};

// ---------------------------------------------------------------------------------------------
// messages

#[derive(Clone)]
pub struct Cast {
    pub msg: MsgRef,
    pub work: Arc<Vec<Step>>,
}
impl Message for Cast {
    type Response = ();
}

pub struct Ask {
    pub msg: MsgRef,
    pub work: Arc<Vec<Step>>,
}
impl Message for Ask {
    type Response = Reply;
}

pub struct Tick {
    pub actor: ActorId,
    pub timer: usize,
    pub n: u32,
    pub ctr: Arc<AtomicU32>,
    pub work: Arc<Vec<Step>>,
}
impl Message for Tick {
    type Response = ();
}
impl Tick {
    fn fresh(actor: ActorId, timer: usize, ctr: &Arc<AtomicU32>, work: &Arc<Vec<Step>>) -> Tick {
        let n = ctr.fetch_add(1, Ordering::Relaxed);
        log(EvKind::TickCreated { actor, timer, n });
        Tick { actor, timer, n, ctr: Arc::clone(ctr), work: Arc::clone(work) }
    }
}
impl Clone for Tick {
    /// `Context::interval` clones its template once per tick
    fn clone(&self) -> Self {
        Tick::fresh(self.actor, self.timer, &self.ctr, &self.work)
    }
}

#[derive(Clone)]
pub struct Topic<const T: u8> {
    pub id: u32,
}
impl<const T: u8> Message for Topic<T> {
    type Response = ();
}

#[derive(Clone)]
pub struct ChildMsg<const T: u8> {
    pub tag: u32,
}
impl<const T: u8> Message for ChildMsg<T> {
    type Response = ();
}

pub struct Item(pub u32);

// ---------------------------------------------------------------------------------------------
// scripted stream

pub struct StreamState {
    pub queue: VecDeque<u32>,
    pub ended: bool,
    pub waker: Option<Waker>,
    pub next_item: u32,
    pub reported_end: bool,
}

#[derive(Clone)]
pub struct StreamCtl {
    pub id: usize,
    pub actor: ActorId,
    pub st: Arc<Mutex<StreamState>>,
}

impl StreamCtl {
    pub fn feed(&self, n: u32) {
        let w = {
            let mut s = self.st.lock().unwrap();
            if s.ended {
                return;
            }
            for _ in 0..n {
                let i = s.next_item;
                s.next_item += 1;
                s.queue.push_back(i);
            }
            s.waker.take()
        };
        if let Some(w) = w {
            w.wake();
        }
    }
    pub fn end(&self) {
        let w = {
            let mut s = self.st.lock().unwrap();
            s.ended = true;
            s.waker.take()
        };
        if let Some(w) = w {
            w.wake();
        }
    }
}

pub struct ScriptedStream {
    id: usize,
    st: Arc<Mutex<StreamState>>,
}

impl futures::Stream for ScriptedStream {
    type Item = Item;
    fn poll_next(self: Pin<&mut Self>, cx: &mut TaskCx<'_>) -> Poll<Option<Item>> {
        let mut s = self.st.lock().unwrap();
        if let Some(i) = s.queue.pop_front() {
            drop(s);
            log(EvKind::StreamYield { stream: self.id, item: i });
            Poll::Ready(Some(Item(i)))
        } else if s.ended {
            if !s.reported_end {
                s.reported_end = true;
                drop(s);
                log(EvKind::StreamEnded { stream: self.id });
                Poll::Ready(None)
            } else {
                // a stream must not be polled again after it returned None (the contract leaves the
                // outcome open: panic, block, ...); this one blocks forever and records the fact
                drop(s);
                log(EvKind::Note(format!("stream {} polled after it had ended", self.id)));
                Poll::Pending
            }
        } else {
            s.waker = Some(cx.waker().clone());
            Poll::Pending
        }
    }
}

pub fn new_stream(id: usize, actor: ActorId) -> (ScriptedStream, StreamCtl) {
    let st = Arc::new(Mutex::new(StreamState {
        queue: VecDeque::new(),
        ended: false,
        waker: None,
        next_item: 0,
        reported_end: false,
    }));
    (ScriptedStream { id, st: Arc::clone(&st) }, StreamCtl { id, actor, st })
}

// ---------------------------------------------------------------------------------------------
// handles over the two probe kinds

pub enum AnyAddr {
    A0(Addr<Probe<0>>),
    A1(Addr<Probe<1>>),
}
pub enum AnyOwning {
    A0(OwningAddr<Probe<0>>),
    A1(OwningAddr<Probe<1>>),
}
pub enum Exported {
    WeakAddr(AnyWeak),
    WeakSender(hannibal::WeakSender<Cast>),
    WeakCaller(hannibal::WeakCaller<Ask>),
}

pub enum AnyWeak {
    A0(WeakAddr<Probe<0>>),
    A1(WeakAddr<Probe<1>>),
}

#[macro_export]
macro_rules! on_any {
    ($e:expr, $ty:ident, $a:ident => $body:expr) => {
        match $e {
            $crate::probe::$ty::A0($a) => $body,
            $crate::probe::$ty::A1($a) => $body,
        }
    };
}

impl Clone for AnyAddr {
    fn clone(&self) -> Self {
        match self {
            AnyAddr::A0(a) => AnyAddr::A0(a.clone()),
            AnyAddr::A1(a) => AnyAddr::A1(a.clone()),
        }
    }
}
impl Clone for AnyWeak {
    fn clone(&self) -> Self {
        match self {
            AnyWeak::A0(a) => AnyWeak::A0(a.clone()),
            AnyWeak::A1(a) => AnyWeak::A1(a.clone()),
        }
    }
}

impl AnyAddr {
    pub async fn identify(&self) -> Ident {
        let n = with_case(|c| c.new_who());
        let ask = Ask { msg: MsgRef::WhoAmI(n), work: Arc::new(Vec::new()) };
        let r = on_any!(self, AnyAddr, a => a.call(ask).await);
        match r {
            Ok(reply) => Ident::Live { actor: reply.actor, value: reply.value },
            Err(_) => Ident::Dead { actor: None },
        }
    }
    pub fn downgrade(&self) -> AnyWeak {
        match self {
            AnyAddr::A0(a) => AnyWeak::A0(a.downgrade()),
            AnyAddr::A1(a) => AnyWeak::A1(a.downgrade()),
        }
    }
}

// ---------------------------------------------------------------------------------------------
// the probe

pub struct Probe<const K: u8> {
    pub value: u32,
    pub actor: ActorId,
    tentative: bool,
    pub beh: Arc<Behavior>,
    pub inc: u32,
    pub began: Vec<MsgRef>,
    pub done: Vec<MsgRef>,
    pub stopped_calls: u32,
    pub peer: Option<(ActorId, AnyAddr)>,
}

impl<const K: u8> Probe<K> {
    pub fn new(actor: ActorId, beh: Arc<Behavior>, peer: Option<(ActorId, AnyAddr)>) -> Self {
        let value = with_case(|c| c.new_value());
        Probe { value, actor, tentative: false, beh, inc: 0, began: vec![], done: vec![], stopped_calls: 0, peer }
    }

    pub fn final_value(&self) -> FinalValue {
        FinalValue {
            actor: self.actor,
            value: self.value,
            began: self.began.clone(),
            done: self.done.clone(),
            stopped_calls: self.stopped_calls,
        }
    }

    fn wrap_weak(w: WeakAddr<Self>) -> AnyWeak {
        let b: Box<dyn std::any::Any> = Box::new(w);
        match b.downcast::<WeakAddr<Probe<0>>>() {
            Ok(x) => AnyWeak::A0(*x),
            Err(b) => AnyWeak::A1(*b.downcast::<WeakAddr<Probe<1>>>().expect("probe kind")),
        }
    }

    fn add_timer(&mut self, ctx: &mut Context<Self>, spec: &TimerSpec) {
        let actor = self.actor;
        let timer = with_case(|c| c.new_timer());
        log(EvKind::TimerReg { actor, timer, kind: spec.kind, ticks: spec.ticks, inc: self.inc });
        with_case(|c| c.sim.announce(TaskTag::Timer { actor, timer }));
        let dur = Duration::from_millis(spec.ticks as u64);
        let ctr = Arc::new(AtomicU32::new(0));
        let work = Arc::new(spec.work.clone());
        match spec.kind {
            TimerKind::Interval => {
                let template = Tick { actor, timer, n: u32::MAX, ctr, work };
                ctx.interval(template, dur);
            }
            TimerKind::IntervalWith => {
                ctx.interval_with(move || Tick::fresh(actor, timer, &ctr, &work), dur);
            }
            TimerKind::DelayedSend => {
                ctx.delayed_send(move || Tick::fresh(actor, timer, &ctr, &work), dur);
            }
            TimerKind::DelayedExec => {
                ctx.delayed_exec(
                    async move {
                        log(EvKind::DelayedRan { actor, timer });
                        // the delayed task itself may take a while
                        for s in work.iter() {
                            match s {
                                Step::Sleep(t) => {
                                    let f = with_case(|c| c.sim.sleep_ticks(*t as u64));
                                    f.await
                                }
                                Step::Yield => yield_now().await,
                                _ => {}
                            }
                        }
                        log(EvKind::Note(format!("delayed-exec-done actor={actor} timer={timer}")));
                    },
                    dur,
                );
            }
        }
        with_case(|c| c.sim.clear_announce());
    }

    async fn do_step(&mut self, ctx: &mut Context<Self>, inv: Option<u32>, step: &Step) {
        let actor = self.actor;
        match step {
            Step::Yield => yield_now().await,
            Step::Sleep(t) => {
                let f = with_case(|c| c.sim.sleep_ticks(*t as u64));
                f.await
            }
            Step::CtxStop => {
                let ok = ctx.stop().is_ok();
                log(EvKind::CtxOp { actor, inv, op: CtxOpKind::Stop, ok });
            }
            // never restart a stream-attached actor (documented panic of the library)
            Step::CtxRestart if with_case(|c| c.actors.borrow()[actor].stream) => {}
            Step::CtxRestart => {
                let ok = ctx.restart().is_ok();
                log(EvKind::CtxOp { actor, inv, op: CtxOpKind::Restart, ok });
            }
            Step::AddTimer(spec) => self.add_timer(ctx, spec),
            Step::SendToChildren { reg, tag } => match reg {
                ChildReg::Unit => ctx.send_to_children(()),
                ChildReg::Msg0 => ctx.send_to_children(ChildMsg::<0> { tag: *tag }),
                ChildReg::Msg1 => ctx.send_to_children(ChildMsg::<1> { tag: *tag }),
            },
            Step::Publish { topic, id } => {
                log(EvKind::Note(format!("pub-begin actor={actor} topic={topic} id={id}")));
                let b = log(EvKind::OpBegin {
                    client: 100 + actor,
                    op: *id as usize,
                    what: OpWhat::Publish(*topic),
                    actor: None,
                    via: None,
                    msg: Some(*id),
                });
                let _ = b;
                let r = if *topic == 0 {
                    ctx.publish(Topic::<0> { id: *id }).await
                } else {
                    ctx.publish(Topic::<1> { id: *id }).await
                };
                log(EvKind::OpEnd {
                    client: 100 + actor,
                    op: *id as usize,
                    res: match r {
                        Ok(()) => OpRes::Ok,
                        Err(e) => OpRes::Err(format!("{e:?}")),
                    },
                    polls: 0,
                });
            }
            Step::Subscribe(topic) => {
                log(EvKind::OpBegin {
                    client: 100 + actor,
                    op: 900 + *topic as usize,
                    what: OpWhat::Subscribe(*topic),
                    actor: Some(actor),
                    via: None,
                    msg: None,
                });
                let r = if *topic == 0 {
                    ctx.subscribe::<Topic<0>>().await
                } else {
                    ctx.subscribe::<Topic<1>>().await
                };
                log(EvKind::OpEnd {
                    client: 100 + actor,
                    op: 900 + *topic as usize,
                    res: match r {
                        Ok(()) => OpRes::Ok,
                        Err(e) => OpRes::Err(format!("{e:?}")),
                    },
                    polls: 0,
                });
            }
            Step::CallPeer => {
                if let Some((peer_id, peer)) = &self.peer {
                    let peer_id = *peer_id;
                    let ident = peer.identify().await;
                    log(EvKind::PeerCall { actor, inv, peer: peer_id, ok: matches!(ident, Ident::Live { .. }) });
                }
            }
            Step::Lookup(kind) => {
                log(EvKind::OpBegin {
                    client: 100 + actor,
                    op: 800 + *kind as usize,
                    what: OpWhat::Reg(RegOp::FromRegistry, *kind),
                    actor: None,
                    via: None,
                    msg: None,
                });
                let addr = if *kind == 0 {
                    AnyAddr::A0(Probe::<0>::from_registry().await)
                } else {
                    AnyAddr::A1(Probe::<1>::from_registry().await)
                };
                let got = addr.identify().await;
                log(EvKind::Lookup { actor, kind: *kind, got: got.clone() });
                log(EvKind::OpEnd { client: 100 + actor, op: 800 + *kind as usize, res: OpRes::Reg(RegRes::Got(got)), polls: 0 });
            }
            Step::ExportWeak(kind) => {
                let e = match kind {
                    HKind::WeakAddr => ctx.weak_address().map(|w| Exported::WeakAddr(Self::wrap_weak(w))),
                    HKind::WeakSender => Some(Exported::WeakSender(ctx.weak_sender::<Cast>())),
                    HKind::WeakCaller => Some(Exported::WeakCaller(ctx.weak_caller::<Ask, _>())),
                    _ => None,
                };
                if let Some(e) = e {
                    with_case(|c| c.exported.borrow_mut().push((actor, e)));
                }
            }
            Step::Panic => std::panic::panic_any(InjectedPanic),
        }
    }

    async fn run_handler(&mut self, ctx: &mut Context<Self>, msg: MsgRef, work: &[Step]) -> u32 {
        let actor = self.actor;
        let inv = with_case(|c| c.new_inv());
        log(EvKind::HEnter { actor, value: self.value, inc: self.inc, inv, msg: msg.clone() });
        let kth = with_case(|c| {
            let mut a = c.actors.borrow_mut();
            let k = a[actor].handler_count;
            a[actor].handler_count += 1;
            k
        });
        if with_case(|c| c.fault_handler_panic(actor, kth)) {
            std::panic::panic_any(InjectedPanic);
        }
        self.began.push(msg.clone());
        for (i, step) in work.iter().enumerate() {
            self.do_step(ctx, Some(inv), step).await;
            log(EvKind::HStep { actor, inv, idx: i as u32 });
        }
        self.done.push(msg);
        log(EvKind::HExit { actor, inv });
        inv
    }

    fn spawn_children(&mut self, ctx: &mut Context<Self>) {
        let me = self.actor;
        let Some(my_slot) = with_case(|c| c.actors.borrow()[me].slot) else { return };
        let kids: Vec<(Slot, ChildOf)> = with_case(|c| {
            c.case
                .actors
                .iter()
                .enumerate()
                .filter_map(|(s, a)| a.parent.filter(|p| p.parent == my_slot).map(|p| (s, p)))
                .collect()
        });
        for (slot, ch) in kids {
            let addr = match spawn_slot(slot) {
                Spawned::Addr(a) => a,
                Spawned::Owning(o) => on_any!(o, AnyOwning, o => {
                    // children are plain addresses for the parent
                    AnyAddr::from(o.detach())
                }),
            };
            log(EvKind::ChildAdded { parent: me, child: slot, reg: ch.under, outside: ch.outside });
            if ch.outside {
                with_case(|c| c.outside.borrow_mut().push((slot, addr.clone())));
            }
            if let Some(second) = ch.also_under {
                match (second, addr.clone()) {
                    (ChildReg::Unit, AnyAddr::A0(a)) => ctx.add_child(a),
                    (ChildReg::Unit, AnyAddr::A1(a)) => ctx.add_child(a),
                    (ChildReg::Msg0, AnyAddr::A0(a)) => ctx.register_child::<ChildMsg<0>>(a),
                    (ChildReg::Msg0, AnyAddr::A1(a)) => ctx.register_child::<ChildMsg<0>>(a),
                    (ChildReg::Msg1, AnyAddr::A0(a)) => ctx.register_child::<ChildMsg<1>>(a),
                    (ChildReg::Msg1, AnyAddr::A1(a)) => ctx.register_child::<ChildMsg<1>>(a),
                }
            }
            // every other child is registered by reference (`From<&Addr>`): the parent's entry is a strong
            // handle all the same, the child lives on after the local address is dropped
            if slot % 2 == 1 {
                match (ch.under, &addr) {
                    (ChildReg::Unit, AnyAddr::A0(a)) => ctx.add_child(a),
                    (ChildReg::Unit, AnyAddr::A1(a)) => ctx.add_child(a),
                    (ChildReg::Msg0, AnyAddr::A0(a)) => ctx.register_child::<ChildMsg<0>>(a),
                    (ChildReg::Msg0, AnyAddr::A1(a)) => ctx.register_child::<ChildMsg<0>>(a),
                    (ChildReg::Msg1, AnyAddr::A0(a)) => ctx.register_child::<ChildMsg<1>>(a),
                    (ChildReg::Msg1, AnyAddr::A1(a)) => ctx.register_child::<ChildMsg<1>>(a),
                }
                drop(addr);
                continue;
            }
            match (ch.under, addr) {
                (ChildReg::Unit, AnyAddr::A0(a)) => ctx.add_child(a),
                (ChildReg::Unit, AnyAddr::A1(a)) => ctx.add_child(a),
                (ChildReg::Msg0, AnyAddr::A0(a)) => ctx.register_child::<ChildMsg<0>>(a),
                (ChildReg::Msg0, AnyAddr::A1(a)) => ctx.register_child::<ChildMsg<0>>(a),
                (ChildReg::Msg1, AnyAddr::A0(a)) => ctx.register_child::<ChildMsg<1>>(a),
                (ChildReg::Msg1, AnyAddr::A1(a)) => ctx.register_child::<ChildMsg<1>>(a),
            }
        }
    }
}

impl From<Addr<Probe<0>>> for AnyAddr {
    fn from(a: Addr<Probe<0>>) -> Self {
        AnyAddr::A0(a)
    }
}
impl From<Addr<Probe<1>>> for AnyAddr {
    fn from(a: Addr<Probe<1>>) -> Self {
        AnyAddr::A1(a)
    }
}

impl<const K: u8> Default for Probe<K> {
    fn default() -> Self {
        let (actor, tentative, beh) = with_case(|c| {
            let beh = Arc::new(c.case.default_beh.get(K as usize).cloned().unwrap_or_default());
            match c.sim.peek_announce() {
                Some(TaskTag::Actor(id)) => (id, false, beh),
                _ => {
                    let id = c.new_actor(K, Origin::Default);
                    c.sim.announce(TaskTag::Actor(id));
                    (id, true, beh)
                }
            }
        });
        let value = with_case(|c| c.new_value());
        Probe { value, actor, tentative, beh, inc: 0, began: vec![], done: vec![], stopped_calls: 0, peer: None }
    }
}

impl<const K: u8> Actor for Probe<K> {
    const NAME: &'static str = "Probe";

    async fn started(&mut self, ctx: &mut Context<Self>) -> DynResult<()> {
        // who am I?  (a Default-born value may have been created by recreate-from-default inside
        // an existing actor's task)
        if self.tentative {
            self.tentative = false;
            let cur = with_case(|c| c.current_actor());
            if let Some(cur) = cur {
                if cur != self.actor {
                    let mine = self.actor;
                    with_case(|c| {
                        c.actors.borrow_mut()[mine].origin = Origin::Phantom;
                        if c.sim.peek_announce() == Some(TaskTag::Actor(mine)) {
                            c.sim.clear_announce();
                        }
                        c.log(EvKind::Note(format!("phantom actor={mine} is a recreated value of actor={cur}")));
                    });
                    self.actor = cur;
                }
            }
        }
        let actor = self.actor;
        let inc = with_case(|c| {
            let mut a = c.actors.borrow_mut();
            let i = a[actor].incarnations;
            a[actor].incarnations += 1;
            i
        });
        self.inc = inc;
        log(EvKind::Cb { actor, value: self.value, inc, cb: Cb::Started, enter: true });
        if inc == 0 {
            self.spawn_children(ctx);
        }
        let beh = Arc::clone(&self.beh);
        for step in &beh.started {
            self.do_step(ctx, None, step).await;
        }
        let fail = with_case(|c| c.fault_start_fail(actor, inc))
            .or(beh.start_fail.filter(|(i, _)| *i == inc).map(|(_, h)| h));
        match fail {
            Some(FailHow::Panic) => std::panic::panic_any(InjectedPanic),
            Some(FailHow::Err) => {
                log(EvKind::Cb { actor, value: self.value, inc, cb: Cb::Started, enter: false });
                log(EvKind::Note(format!("started-err actor={actor} inc={inc}")));
                return Err("injected start failure".into());
            }
            None => {}
        }
        log(EvKind::Cb { actor, value: self.value, inc, cb: Cb::Started, enter: false });
        Ok(())
    }

    async fn stopped(&mut self, ctx: &mut Context<Self>) {
        let actor = self.actor;
        log(EvKind::Cb { actor, value: self.value, inc: self.inc, cb: Cb::Stopped, enter: true });
        self.stopped_calls += 1;
        let beh = Arc::clone(&self.beh);
        for step in &beh.stopped {
            self.do_step(ctx, None, step).await;
        }
        if beh.stop_panic || with_case(|c| c.fault_stop_panic(actor)) {
            std::panic::panic_any(InjectedPanic);
        }
        log(EvKind::Cb { actor, value: self.value, inc: self.inc, cb: Cb::Stopped, enter: false });
    }
}

impl<const K: u8> RestartableActor for Probe<K> {}
impl<const K: u8> Service for Probe<K> {}

impl<const K: u8> Handler<Cast> for Probe<K> {
    async fn handle(&mut self, ctx: &mut Context<Self>, m: Cast) {
        let work = Arc::clone(&m.work);
        self.run_handler(ctx, m.msg, &work).await;
    }
}

impl<const K: u8> Handler<Ask> for Probe<K> {
    async fn handle(&mut self, ctx: &mut Context<Self>, m: Ask) -> Reply {
        let work = Arc::clone(&m.work);
        let msg = m.msg.clone();
        let inv = self.run_handler(ctx, m.msg, &work).await;
        Reply {
            msg,
            actor: self.actor,
            value: self.value,
            inc: self.inc,
            inv,
            began: self.began.clone(),
            done: self.done.clone(),
        }
    }
}

impl<const K: u8> Handler<Tick> for Probe<K> {
    async fn handle(&mut self, ctx: &mut Context<Self>, m: Tick) {
        let work = Arc::clone(&m.work);
        self.run_handler(ctx, MsgRef::Tick { timer: m.timer, n: m.n }, &work).await;
    }
}

impl<const K: u8> Handler<()> for Probe<K> {
    async fn handle(&mut self, ctx: &mut Context<Self>, _m: ()) {
        let aux = Arc::clone(&self.beh);
        let aux = aux.aux_work.clone();
        self.run_handler(ctx, MsgRef::Unit, &aux).await;
    }
}

impl<const K: u8, const T: u8> Handler<Topic<T>> for Probe<K> {
    async fn handle(&mut self, ctx: &mut Context<Self>, m: Topic<T>) {
        let aux = Arc::clone(&self.beh);
        let aux = aux.aux_work.clone();
        self.run_handler(ctx, MsgRef::Topic { topic: T, id: m.id }, &aux).await;
    }
}

impl<const K: u8, const T: u8> Handler<ChildMsg<T>> for Probe<K> {
    async fn handle(&mut self, ctx: &mut Context<Self>, m: ChildMsg<T>) {
        let aux = Arc::clone(&self.beh);
        let aux = aux.aux_work.clone();
        self.run_handler(ctx, MsgRef::Child { reg: T, tag: m.tag }, &aux).await;
    }
}

impl<const K: u8> StreamHandler<Item> for Probe<K> {
    async fn handle(&mut self, ctx: &mut Context<Self>, m: Item) {
        let aux = Arc::clone(&self.beh);
        let aux = aux.aux_work.clone();
        self.run_handler(ctx, MsgRef::Item(m.0), &aux).await;
    }

    async fn finished(&mut self, ctx: &mut Context<Self>) {
        let actor = self.actor;
        log(EvKind::Cb { actor, value: self.value, inc: self.inc, cb: Cb::Finished, enter: true });
        let beh = Arc::clone(&self.beh);
        for step in &beh.finished {
            self.do_step(ctx, None, step).await;
        }
        if with_case(|c| c.fault_finish_panic(actor)) {
            std::panic::panic_any(InjectedPanic);
        }
        log(EvKind::Cb { actor, value: self.value, inc: self.inc, cb: Cb::Finished, enter: false });
    }
}

// ---------------------------------------------------------------------------------------------
// spawning

pub enum Spawned {
    Addr(AnyAddr),
    Owning(AnyOwning),
}

/// Spawn the actor described by `case.actors[slot]` (everything except `SpawnSpec::Register`,
/// whose registration step is async and done by the caller).
pub fn spawn_slot(slot: Slot) -> Spawned {
    let kind = with_case(|c| c.case.actors[slot].kind);
    if kind == 0 { spawn_k::<0>(slot) } else { spawn_k::<1>(slot) }
}

pub trait Wrap: Sized + Actor {
    fn weak(a: WeakAddr<Self>) -> AnyWeak;
    fn addr(a: Addr<Self>) -> AnyAddr;
    fn owning(a: OwningAddr<Self>) -> AnyOwning;
}
impl Wrap for Probe<0> {
    fn weak(a: WeakAddr<Self>) -> AnyWeak {
        AnyWeak::A0(a)
    }
    fn addr(a: Addr<Self>) -> AnyAddr {
        AnyAddr::A0(a)
    }
    fn owning(a: OwningAddr<Self>) -> AnyOwning {
        AnyOwning::A0(a)
    }
}
impl Wrap for Probe<1> {
    fn weak(a: WeakAddr<Self>) -> AnyWeak {
        AnyWeak::A1(a)
    }
    fn addr(a: Addr<Self>) -> AnyAddr {
        AnyAddr::A1(a)
    }
    fn owning(a: OwningAddr<Self>) -> AnyOwning {
        AnyOwning::A1(a)
    }
}

fn spawn_k<const K: u8>(slot: Slot) -> Spawned
where
    Probe<K>: Wrap,
{
    let (spec, peer) = with_case(|c| {
        let spec = c.case.actors[slot].clone();
        (spec, None::<(ActorId, AnyAddr)>)
    });
    let _ = peer;
    let actor = slot;
    let beh = Arc::new(spec.beh.clone());
    // the peer address (if any) is installed by the interpreter through `PEERS`
    let peer = crate::interp::take_peer_for(slot);
    let mk = || Probe::<K>::new(actor, Arc::clone(&beh), None);
    let announce = || with_case(|c| c.sim.announce(TaskTag::Actor(actor)));
    let a = |x: Addr<Probe<K>>| Spawned::Addr(<Probe<K> as Wrap>::addr(x));
    let o = |x: OwningAddr<Probe<K>>| Spawned::Owning(<Probe<K> as Wrap>::owning(x));
    let mut probe = mk();
    probe.peer = peer;
    announce();
    let out = match &spec.spawn {
        SpawnSpec::Spawn | SpawnSpec::Register { builder: None, .. } => a(probe.spawn()),
        SpawnSpec::SpawnOwning => o(Spawnable::spawn_owning(probe)),
        SpawnSpec::SpawnDefault => {
            drop(probe);
            a(<Probe<K> as DefaultSpawnable<TokioSpawner>>::spawn_default().expect("spawn_default"))
        }
        SpawnSpec::SpawnDefaultOwning => {
            drop(probe);
            o(<Probe<K> as DefaultSpawnable<TokioSpawner>>::spawn_owning().expect("spawn_owning"))
        }
        SpawnSpec::Register { builder: Some(m), .. } => match m {
            Mailbox::Unbounded => a(hannibal::build(probe).unbounded().spawn()),
            Mailbox::Bounded(n) => a(hannibal::build(probe).bounded(*n as usize).spawn()),
        },
        SpawnSpec::Build { mailbox, strategy, timeout, fail_on_timeout, owning } => {
            let mut b = hannibal::build(probe);
            // every call order of the builder is legal: t % 4 = 0: timeout, fail flag, channel;
            // 1: channel, timeout, fail flag; 2: fail flag, timeout, channel; 3: fail flag, channel, timeout
            let order = timeout.map(|t| t % 4);
            let dur = |t: u32| Duration::from_millis(t as u64);
            if timeout.is_some_and(|t| (t / 8) % 2 == 1) {
                // configured twice: the later call wins
                b = b.timeout(dur(1));
            }
            match (order, timeout) {
                (Some(0), Some(t)) => b = b.timeout(dur(*t)).fail_on_timeout(*fail_on_timeout),
                (Some(2), Some(t)) => b = b.fail_on_timeout(*fail_on_timeout).timeout(dur(*t)),
                (Some(3), Some(_)) => b = b.fail_on_timeout(*fail_on_timeout),
                _ => {}
            }
            if timeout.is_none() && *fail_on_timeout {
                // fail_on_timeout without any timeout: nothing can ever time out
                b = b.fail_on_timeout(true);
            }
            let b = match mailbox {
                Mailbox::Unbounded => b.unbounded(),
                Mailbox::Bounded(n) => b.bounded(*n as usize),
            };
            // orders 1 and 3 configure (part of) the timeout on the channel stage: before the restart
            // strategy is chosen (t / 4 even) or after it (t / 4 odd).  Every arm ends in its own terminal
            // call, so that the harness does not depend on the builder type a setter returns.
            let after_strategy = timeout.is_some_and(|t| (t / 4) % 2 == 1);
            macro_rules! fin {
                ($b:expr, $term:ident) => {{
                    let b = $b;
                    match (order, timeout) {
                        (Some(1), Some(t)) => b.timeout(dur(*t)).fail_on_timeout(*fail_on_timeout).$term(),
                        (Some(3), Some(t)) => b.timeout(dur(*t)).$term(),
                        _ => b.$term(),
                    }
                }};
            }
            macro_rules! fin_then {
                ($b:expr, $strat:ident, $term:ident) => {{
                    let b = $b;
                    match (order, timeout) {
                        (Some(1), Some(t)) => b.timeout(dur(*t)).fail_on_timeout(*fail_on_timeout).$strat().$term(),
                        (Some(3), Some(t)) => b.timeout(dur(*t)).$strat().$term(),
                        _ => b.$strat().$term(),
                    }
                }};
            }
            match (strategy, owning, after_strategy) {
                (RStrat::Default, false, _) => a(fin!(b, spawn)),
                (RStrat::Default, true, _) => o(fin!(b, spawn_owning)),
                (RStrat::Recreate, false, false) => a(fin_then!(b, recreate_from_default, spawn)),
                (RStrat::Recreate, true, false) => o(fin_then!(b, recreate_from_default, spawn_owning)),
                (RStrat::NonRestartable, false, false) => a(fin_then!(b, non_restartable, spawn)),
                (RStrat::NonRestartable, true, false) => o(fin_then!(b, non_restartable, spawn_owning)),
                (RStrat::Recreate, false, true) => a(fin!(b.recreate_from_default(), spawn)),
                (RStrat::Recreate, true, true) => o(fin!(b.recreate_from_default(), spawn_owning)),
                (RStrat::NonRestartable, false, true) => a(fin!(b.non_restartable(), spawn)),
                (RStrat::NonRestartable, true, true) => o(fin!(b.non_restartable(), spawn_owning)),
            }
        }
        SpawnSpec::Stream { builder, owning, timeout } => {
            let stream = crate::interp::new_stream_for(actor);
            // the base builder with an (ineffective) timeout configuration, if any
            let base = |probe: Probe<K>| {
                let b = hannibal::build(probe);
                match timeout {
                    Some((t, f)) if t % 2 == 0 => b.timeout(Duration::from_millis(*t as u64)).fail_on_timeout(*f),
                    Some((t, f)) => b.fail_on_timeout(*f).timeout(Duration::from_millis(*t as u64)),
                    None => b,
                }
            };
            match (builder, owning) {
                (None, false) => a(probe.spawn_on_stream(stream).expect("spawn_on_stream")),
                (None, true) => o(probe.spawn_owning_on_stream(stream).expect("spawn_owning_on_stream")),
                // two routes to an unbounded stream actor: on_stream, or unbounded().non_restartable().with_stream
                (Some(Mailbox::Unbounded), false) if actor % 2 == 1 => a(base(probe).unbounded().non_restartable().with_stream(stream).spawn()),
                (Some(Mailbox::Unbounded), false) => a(base(probe).on_stream(stream).spawn()),
                (Some(Mailbox::Unbounded), true) => o(base(probe).on_stream(stream).spawn_owning()),
                (Some(Mailbox::Bounded(n)), false) => a(base(probe).bounded_on_stream(*n as usize, stream).spawn()),
                (Some(Mailbox::Bounded(n)), true) if *n % 2 == 1 => o(base(probe).bounded(*n as usize).non_restartable().with_stream(stream).spawn_owning()),
                (Some(Mailbox::Bounded(n)), true) => o(base(probe).bounded_on_stream(*n as usize, stream).spawn_owning()),
            }
        }
    };
    with_case(|c| c.sim.clear_announce());
    out
}

/// tags the actor task that the wrapped future spawns during its first poll
pub struct Announced<F> {
    f: std::pin::Pin<Box<F>>,
    tag: Option<TaskTag>,
}
impl<F: std::future::Future> std::future::Future for Announced<F> {
    type Output = F::Output;
    fn poll(mut self: std::pin::Pin<&mut Self>, cx: &mut std::task::Context<'_>) -> std::task::Poll<F::Output> {
        // the spawn may happen in any poll (a terminal that registers before it spawns): offer the tag
        // during every poll until a spawn has taken it
        if let Some(t) = self.tag {
            with_case(|c| c.sim.announce(t));
            let r = self.f.as_mut().poll(cx);
            if with_case(|c| c.sim.peek_announce()).is_none() {
                self.tag = None;
            } else {
                with_case(|c| c.sim.clear_announce());
            }
            r
        } else {
            self.f.as_mut().poll(cx)
        }
    }
}

/// the builder's own `register()` terminal: spawns the actor and registers it in one call; when the
/// registration is refused the only handle is dropped inside the library and the fresh actor ends
pub async fn register_via_builder<const K: u8>(actor: ActorId, beh: Arc<Behavior>, mailbox: Mailbox, timeout: Option<(u32, bool)>) -> Result<(Addr<Probe<K>>, Option<Addr<Probe<K>>>), String>
where
    Probe<K>: Wrap,
{
    let probe = Probe::<K>::new(actor, beh, None);
    let tag = Some(TaskTag::Actor(actor));
    let base = match timeout {
        Some((t, f)) => hannibal::build(probe).timeout(Duration::from_millis(t as u64)).fail_on_timeout(f),
        None => hannibal::build(probe),
    };
    let r = match mailbox {
        Mailbox::Unbounded => Announced { f: Box::pin(base.unbounded().register()), tag }.await,
        Mailbox::Bounded(n) => Announced { f: Box::pin(base.bounded(n as usize).register()), tag }.await,
    };
    r.map_err(|e| format!("{e:?}"))
}

/// spawn a fresh (non-default-born) service instance for a client `Register` / `Replace` op
pub fn spawn_fresh(kind: u8) -> (ActorId, AnyAddr) {
    let actor = with_case(|c| c.new_actor(kind, Origin::RegOp));
    let beh = with_case(|c| Arc::new(c.case.default_beh.get(kind as usize).cloned().unwrap_or_default()));
    with_case(|c| c.sim.announce(TaskTag::Actor(actor)));
    let addr = if kind == 0 {
        AnyAddr::A0(Probe::<0>::new(actor, beh, None).spawn())
    } else {
        AnyAddr::A1(Probe::<1>::new(actor, beh, None).spawn())
    };
    with_case(|c| c.sim.clear_announce());
    (actor, addr)
}
