//! proptest strategies: one generator family per property, all producing `Case`.
//! Every generated case is valid by construction (ops with no suitable handle are logged no-ops).
use proptest::{collection::vec, prelude::*, strategy::Strategy};

use crate::model::*;

pub fn work(max_steps: usize, max_sleep: u32) -> BoxedStrategy<Vec<Step>> {
    vec(prop_oneof![3 => Just(Step::Yield), 2 => (0..=max_sleep).prop_map(Step::Sleep)], 0..=max_steps).boxed()
}

fn schedule(max: usize) -> BoxedStrategy<Vec<u8>> {
    vec(any::<u8>(), 0..=max).boxed()
}

fn mailbox() -> BoxedStrategy<Mailbox> {
    prop_oneof![2 => Just(Mailbox::Unbounded), 3 => (0u8..=3).prop_map(Mailbox::Bounded)].boxed()
}

fn h() -> BoxedStrategy<u16> {
    any::<u16>().boxed()
}

fn light_timer() -> BoxedStrategy<TimerSpec> {
    (
        prop_oneof![
            Just(TimerKind::Interval),
            Just(TimerKind::IntervalWith),
            Just(TimerKind::DelayedSend),
            Just(TimerKind::DelayedExec)
        ],
        1u32..=20,
        vec(Just(Step::Yield), 0..=1),
    )
        .prop_map(|(kind, ticks, work)| TimerSpec { kind, ticks, work })
        .boxed()
}

fn started_with_timers(max: usize) -> BoxedStrategy<Vec<Step>> {
    prop_oneof![
        3 => Just(vec![]),
        2 => vec(light_timer().prop_map(Step::AddTimer), 1..=max.max(1)),
    ]
    .boxed()
}

/// plain (non-service, non-stream) spawn entry points without timeout
fn plain_spawn(strategies: bool) -> BoxedStrategy<SpawnSpec> {
    let strat = if strategies {
        prop_oneof![Just(RStrat::Default), Just(RStrat::Recreate), Just(RStrat::NonRestartable)].boxed()
    } else {
        Just(RStrat::Default).boxed()
    };
    prop_oneof![
        1 => Just(SpawnSpec::Spawn),
        1 => Just(SpawnSpec::SpawnOwning),
        5 => (mailbox(), strat, any::<bool>()).prop_map(|(mailbox, strategy, owning)| SpawnSpec::Build {
            mailbox,
            strategy,
            timeout: None,
            fail_on_timeout: false,
            owning
        }),
    ]
    .boxed()
}

fn grant_kind(weak: u32) -> BoxedStrategy<HKind> {
    prop_oneof![
        6 => Just(HKind::Addr),
        3 => Just(HKind::Sender),
        3 => Just(HKind::Caller),
        weak => Just(HKind::WeakSender),
        weak => Just(HKind::WeakCaller),
        weak => Just(HKind::WeakAddr),
    ]
    .boxed()
}

/// grants for `nclients` clients on actor 0: client 0 always holds an `Addr` (and the owning
/// address if there is one), everybody gets 1..=3 further handles
fn grants(nclients: usize, owning: bool, weak: u32) -> BoxedStrategy<Vec<Grant>> {
    vec(vec(grant_kind(weak), 1..=3), nclients)
        .prop_map(move |per| {
            let mut g = vec![];
            if owning {
                g.push(Grant { client: 0, actor: 0, kind: HKind::Owning });
            }
            g.push(Grant { client: 0, actor: 0, kind: HKind::Addr });
            for (c, kinds) in per.into_iter().enumerate() {
                for kind in kinds {
                    g.push(Grant { client: c, actor: 0, kind });
                }
            }
            g
        })
        .boxed()
}

#[derive(Clone, Copy)]
pub struct OpWeights {
    pub send: u32,
    pub call: u32,
    pub ping: u32,
    pub convert: u32,
    pub yield_: u32,
    pub sleep: u32,
    pub give: u32,
    pub drop: u32,
    pub stop: u32,
    pub halt: u32,
    pub try_stop: u32,
    pub await_: u32,
    pub restart: u32,
    pub join: u32,
    pub consume: u32,
    pub detach: u32,
    pub query: u32,
    pub call_drop: u32,
    pub max_sleep: u32,
}

pub const MSG_WEIGHTS: OpWeights = OpWeights {
    send: 30,
    call: 30,
    ping: 10,
    convert: 16,
    yield_: 5,
    sleep: 3,
    give: 2,
    drop: 1,
    stop: 1,
    halt: 0,
    try_stop: 0,
    await_: 0,
    restart: 0,
    join: 0,
    consume: 0,
    detach: 0,
    query: 0,
    call_drop: 0,
    max_sleep: 4,
};

pub fn client_op(w: OpWeights) -> BoxedStrategy<ClientOp> {
    let conv = prop_oneof![
        4 => h().prop_map(|h| ClientOp::Clone { h }),
        3 => h().prop_map(|h| ClientOp::ToSender { h }),
        3 => h().prop_map(|h| ClientOp::ToCaller { h }),
        2 => h().prop_map(|h| ClientOp::ToWeakSender { h }),
        2 => h().prop_map(|h| ClientOp::ToWeakCaller { h }),
        2 => h().prop_map(|h| ClientOp::Downgrade { h }),
        2 => h().prop_map(|h| ClientOp::Upgrade { h }),
        1 => h().prop_map(|h| ClientOp::ToAddr { h }),
    ];
    let mut alts: Vec<(u32, BoxedStrategy<ClientOp>)> = vec![
        (w.send, (h(), work(2, w.max_sleep)).prop_map(|(h, work)| ClientOp::Send { h, work }).boxed()),
        (w.call, (h(), work(2, w.max_sleep)).prop_map(|(h, work)| ClientOp::Call { h, work }).boxed()),
        (w.ping, h().prop_map(|h| ClientOp::Ping { h }).boxed()),
        (w.convert, conv.boxed()),
        (w.yield_, Just(ClientOp::Yield).boxed()),
        (w.sleep, (0..=w.max_sleep.max(1) * 2).prop_map(ClientOp::Sleep).boxed()),
        (w.give, (h(), any::<u8>()).prop_map(|(h, to)| ClientOp::Give { h, to }).boxed()),
        (w.drop, h().prop_map(|h| ClientOp::Drop { h }).boxed()),
        (w.stop, h().prop_map(|h| ClientOp::Stop { h }).boxed()),
        (w.halt, h().prop_map(|h| ClientOp::Halt { h }).boxed()),
        (w.try_stop, prop_oneof![h().prop_map(|h| ClientOp::TryStop { h }), h().prop_map(|h| ClientOp::TryHalt { h })].boxed()),
        (w.await_, h().prop_map(|h| ClientOp::AwaitClone { h }).boxed()),
        (w.restart, h().prop_map(|h| ClientOp::Restart { h }).boxed()),
        (w.join, h().prop_map(|h| ClientOp::Join { h }).boxed()),
        (w.consume, prop_oneof![h().prop_map(|h| ClientOp::Consume { h }), h().prop_map(|h| ClientOp::ConsumeSync { h })].boxed()),
        (w.detach, h().prop_map(|h| ClientOp::Detach { h }).boxed()),
        (w.query, prop_oneof![h().prop_map(|h| ClientOp::QueryStopped { h }), h().prop_map(|h| ClientOp::QueryRunning { h })].boxed()),
        (w.call_drop, (h(), work(2, w.max_sleep), 0u8..4, any::<bool>()).prop_map(|(h, work, polls, call)| if call { ClientOp::CallDrop { h, work, polls } } else { ClientOp::SendDrop { h, work, polls } }).boxed()),
    ];
    alts.retain(|(w, _)| *w > 0);
    proptest::strategy::Union::new_weighted(alts).boxed()
}

pub fn clients(n: std::ops::RangeInclusive<usize>, ops: std::ops::RangeInclusive<usize>, w: OpWeights) -> BoxedStrategy<Vec<Vec<ClientOp>>> {
    vec(vec(client_op(w), *ops.start()..=*ops.end()), *n.start()..=*n.end()).boxed()
}

/// fill in the derived fields
pub fn finalize(mut c: Case) -> Case {
    if c.default_beh.len() < 2 {
        c.default_beh.resize(2, Behavior::default());
    }
    // settle window: everything that was accepted can be handled
    let h = crate::interp::horizon_of(&c);
    c.settle = (h / 2).min(100_000) as u32 + 1;
    c
}

/// Re-establish the generator invariants of the case's family after structural edits (used by the
/// fuzz decoder; idempotent on generated cases).
pub fn normalize(c: &mut Case) {
    // documented usage only: no restart of a stream-attached actor, no handler duration equal to the timeout
    let stream = c.actors.first().is_some_and(|a| a.spawn.is_stream());
    let mut pub_id = 1;
    let mut tag = 1;
    for cl in &mut c.clients {
        for op in cl.iter_mut() {
            match op {
                ClientOp::Publish { id, .. } => {
                    *id = pub_id;
                    pub_id += 1;
                }
                ClientOp::Send { work, .. } | ClientOp::Call { work, .. } | ClientOp::CallDrop { work, .. } | ClientOp::SendRepoll { work, .. } | ClientOp::SendDrop { work, .. } => {
                    if stream {
                        work.retain(|s| !matches!(s, Step::CtxRestart));
                    }
                    for s in work.iter_mut() {
                        match s {
                            Step::Publish { id, .. } => {
                                *id = pub_id;
                                pub_id += 1;
                            }
                            Step::SendToChildren { tag: t, .. } => {
                                *t = tag;
                                tag += 1;
                            }
                            _ => {}
                        }
                    }
                }
                ClientOp::Restart { .. } if stream => *op = ClientOp::Yield,
                _ => {}
            }
        }
    }
    avoid_exact_timeout(c);
    if c.family == Family::C10 {
        limit_slow_timers(c);
    }
    if c.family == Family::C06 {
        c.faults.clear();
    }
    let h = crate::interp::horizon_of(c);
    c.settle = (h / 2).min(100_000) as u32 + 1 + if c.family == Family::C09 { 20 } else { 0 };
}

/// at most one repeating timer with a slow handler (load < 1): the actor must be able to keep up
/// with its own timers
pub fn limit_slow_timers(c: &mut Case) {
    let mut slow_seen = false;
    let mut fix = |t: &mut TimerSpec| {
        if t.work.iter().any(|s| matches!(s, Step::Sleep(_))) {
            if slow_seen {
                t.work.clear();
            }
            slow_seen = true;
        }
    };
    for a in &mut c.actors {
        for s in &mut a.beh.started {
            if let Step::AddTimer(t) = s {
                fix(t);
            }
        }
    }
    for cl in &mut c.clients {
        for op in cl.iter_mut() {
            if let ClientOp::Call { work, .. } | ClientOp::Send { work, .. } = op {
                for s in work.iter_mut() {
                    if let Step::AddTimer(t) = s {
                        fix(t);
                    }
                }
            }
        }
    }
}

fn one_actor(spawn: SpawnSpec, beh: Behavior) -> Vec<ActorSpec> {
    vec![ActorSpec { kind: 0, spawn, parent: None, beh, peer: None }]
}

// ---------------------------------------------------------------------------------------------

pub fn c01(big: bool) -> BoxedStrategy<Case> {
    let max_ops = if big { 16 } else { 10 };
    // mostly plain mailboxes; also restart strategies, a (non-failing) handler timeout and stream-attached
    // actors: FIFO must hold under every configuration
    let spawn = prop_oneof![
        7 => plain_spawn(false),
        1 => plain_spawn(true),
        1 => (mailbox(), 3u32..8, any::<bool>(), prop_oneof![2 => Just(RStrat::Default), 1 => Just(RStrat::Recreate), 1 => Just(RStrat::NonRestartable)]).prop_map(|(mailbox, t, owning, strategy)| SpawnSpec::Build { mailbox, strategy, timeout: Some(t), fail_on_timeout: false, owning }),
        1 => stream_spawn(),
    ];
    let w = OpWeights { call_drop: 3, restart: 2, ..MSG_WEIGHTS };
    let op = mixed_ops(w, vec![(3, (any::<u8>(), 0u8..4).prop_map(|(stream, n)| ClientOp::Feed { stream, n }).boxed()), (3, export_weak_op())]);
    (spawn, (started_with_timers(2), slow_callback()), 1usize..=4)
        .prop_flat_map(move |(spawn, started, n)| {
            let owning = spawn.owning();
            (Just(spawn), Just(started), grants(n, owning, 1), vec(vec(op.clone(), 3..=max_ops), n..=n), schedule(if big { 96 } else { 48 }))
        })
        .prop_map(|(spawn, (mut started, slow), grants, clients, schedule)| {
            // messages can arrive while `started` is still suspended
            started.extend(slow);
            let beh = Behavior { started, ..Default::default() };
            let mut c = Case {
                family: Family::C01,
                actors: one_actor(spawn, beh.clone()),
                default_beh: vec![beh],
                grants,
                clients,
                faults: vec![],
                schedule,
                settle: 0,
            };
            sanitize(&mut c);
            avoid_exact_timeout(&mut c);
            finalize(c)
        })
        .boxed()
}

/// termination causes for C02 (besides the client-issued stop / halt / drop ops)
#[derive(Clone, Debug)]
enum Cause {
    None,
    StartFail(FailHow),
    HandlerPanic(u32),
    StopPanic,
    FinishPanic,
    Cancel(u32),
    TimeoutFail(u32),
    /// `started` of the second incarnation fails (needs a restart to manifest)
    RestartFail(FailHow),
    /// a non-fatal handler timeout and a repeating timer whose tick handler exceeds it
    TimeoutCarryOn(u32),
}

pub fn c02(big: bool) -> BoxedStrategy<Case> {
    let max_ops = if big { 14 } else { 9 };
    let cause = prop_oneof![
        2 => Just(Cause::None),
        1 => prop_oneof![Just(FailHow::Err), Just(FailHow::Panic)].prop_map(Cause::StartFail),
        3 => (0u32..8).prop_map(Cause::HandlerPanic),
        1 => Just(Cause::StopPanic),
        3 => (0u32..14).prop_map(Cause::Cancel),
        2 => (1u32..6).prop_map(Cause::TimeoutFail),
        2 => (1u32..6).prop_map(Cause::TimeoutCarryOn),
        2 => prop_oneof![Just(FailHow::Err), Just(FailHow::Panic)].prop_map(Cause::RestartFail),
    ];
    let w = OpWeights { stop: 3, halt: 2, try_stop: 2, await_: 3, drop: 3, join: 2, consume: 1, call_drop: 7, restart: 3, max_sleep: 8, ..MSG_WEIGHTS };
    let op = mixed_ops(w, vec![
        (5, (h(), work(2, 6), 1u8..4).prop_map(|(h, work, extra)| ClientOp::SendRepoll { h, work, extra }).boxed()),
        (2, h().prop_map(|h| ClientOp::JoinStash { h }).boxed()),
    ]);
    let op = mixed_ops_boxed(op, vec![(3, (any::<u8>(), 0u8..4).prop_map(|(stream, n)| ClientOp::Feed { stream, n }).boxed()), (1, (any::<u8>(), 90u8..140).prop_map(|(stream, n)| ClientOp::Feed { stream, n }).boxed()), (1, any::<u8>().prop_map(|stream| ClientOp::EndStream { stream }).boxed())]);
    (prop_oneof![7 => plain_spawn(false), 1 => stream_spawn()], cause, 1usize..=4)
        .prop_flat_map(move |(spawn, cause, n)| {
            let owning = spawn.owning();
            (Just(spawn), Just(cause), grants(n, owning, 2), vec(vec(op.clone(), 3..=max_ops), n..=n), schedule(if big { 96 } else { 48 }))
        })
        .prop_map(|(mut spawn, cause, grants, mut clients, schedule)| {
            // one case in sixteen: a long backlog (one slow message, then 70 sends in a row) in front of
            // the client's own calls - every one of them still resolves
            if schedule.len() % 16 == 3 {
                let mut prog = vec![ClientOp::Send { h: 0, work: vec![Step::Sleep(4)] }];
                prog.extend((0..70).map(|i| ClientOp::Send { h: (i * 7919) as u16, work: vec![] }));
                prog.append(&mut clients[0]);
                clients[0] = prog;
            }
            let mut faults = vec![];
            match cause {
                Cause::None | Cause::FinishPanic => {}
                Cause::TimeoutCarryOn(t) => {
                    let (mailbox, owning) = (spawn.mailbox(), spawn.owning());
                    spawn = SpawnSpec::Build { mailbox, strategy: RStrat::Default, timeout: Some(t), fail_on_timeout: false, owning };
                }
                Cause::StartFail(how) => faults.push(Fault::StartFail { actor: 0, inc: 0, how }),
                Cause::RestartFail(how) => faults.push(Fault::StartFail { actor: 0, inc: 1, how }),
                Cause::HandlerPanic(kth) => faults.push(Fault::HandlerPanic { actor: 0, kth }),
                Cause::StopPanic => faults.push(Fault::StopPanic { actor: 0 }),
                Cause::Cancel(j) => faults.push(Fault::CancelActor { actor: 0, before_poll: j }),
                Cause::TimeoutFail(t) => {
                    let (mailbox, owning) = (spawn.mailbox(), spawn.owning());
                    spawn = SpawnSpec::Build { mailbox, strategy: RStrat::Default, timeout: Some(t), fail_on_timeout: true, owning };
                }
            }
            let mut c = Case {
                family: Family::C02,
                actors: one_actor(spawn, Behavior::default()),
                default_beh: vec![],
                grants,
                clients,
                faults,
                schedule,
                settle: 0,
            };
            avoid_exact_timeout(&mut c);
            finalize(c)
        })
        .boxed()
}

/// handler durations never equal the configured timeout exactly (the property speaks of "less" and "more")
pub fn avoid_exact_timeout(c: &mut Case) {
    let Some((t, _)) = c.actors.first().and_then(|a| a.spawn.timeout()) else { return };
    for cl in &mut c.clients {
        for op in cl {
            if let ClientOp::Send { work, .. } | ClientOp::Call { work, .. } | ClientOp::CallDrop { work, .. } | ClientOp::SendRepoll { work, .. } | ClientOp::SendDrop { work, .. } = op {
                let total: u32 = work.iter().map(|s| if let Step::Sleep(x) = s { *x } else { 0 }).sum();
                if total == t {
                    work.push(Step::Sleep(1));
                }
            }
        }
    }
}

/// remove steps that are outside the documented usage for the given actor (restart on a
/// stream-attached actor panics on purpose)
fn sanitize(c: &mut Case) {
    let stream = c.actors.first().is_some_and(|a| a.spawn.is_stream());
    if stream {
        for cl in &mut c.clients {
            for op in cl.iter_mut() {
                if let ClientOp::Send { work, .. } | ClientOp::Call { work, .. } | ClientOp::CallDrop { work, .. } | ClientOp::SendRepoll { work, .. } | ClientOp::SendDrop { work, .. } = op {
                    work.retain(|s| !matches!(s, Step::CtxRestart));
                }
            }
        }
    }
}

/// steps of a `stopped` / `finished` callback: often instantaneous, sometimes suspending
fn slow_callback() -> BoxedStrategy<Vec<Step>> {
    prop_oneof![2 => Just(vec![]), 1 => Just(vec![Step::Yield]), 1 => (1u32..4).prop_map(|t| vec![Step::Sleep(t)]), 1 => (1u32..3).prop_map(|t| vec![Step::Yield, Step::Sleep(t), Step::Yield])].boxed()
}

fn stream_spawn() -> BoxedStrategy<SpawnSpec> {
    (proptest::option::of(mailbox()), any::<bool>(), proptest::option::weighted(0.25, (1u32..=4, any::<bool>())))
        .prop_map(|(builder, owning, timeout)| SpawnSpec::Stream { builder, owning, timeout: timeout.filter(|_| builder.is_some()) })
        .boxed()
}

/// message work with context operations
fn ctx_work(max_sleep: u32, stop: u32, restart: u32) -> BoxedStrategy<Vec<Step>> {
    let mut alts: Vec<(u32, BoxedStrategy<Step>)> = vec![
        (6, Just(Step::Yield).boxed()),
        (4, (0..=max_sleep).prop_map(Step::Sleep).boxed()),
        (stop, Just(Step::CtxStop).boxed()),
        (restart, Just(Step::CtxRestart).boxed()),
    ];
    alts.retain(|(w, _)| *w > 0);
    vec(proptest::strategy::Union::new_weighted(alts), 0..=2).boxed()
}

fn msg_op(send: u32, call: u32, w: BoxedStrategy<Vec<Step>>) -> BoxedStrategy<ClientOp> {
    prop_oneof![
        send => (h(), w.clone()).prop_map(|(h, work)| ClientOp::Send { h, work }),
        call => (h(), w).prop_map(|(h, work)| ClientOp::Call { h, work }),
    ]
    .boxed()
}

/// a message whose handler obtains a weak handle from its own context and hands it to client 0
fn export_weak_op() -> BoxedStrategy<ClientOp> {
    (h(), prop_oneof![Just(HKind::WeakAddr), Just(HKind::WeakSender), Just(HKind::WeakCaller)], any::<bool>())
        .prop_map(|(h, k, call)| {
            let work = vec![Step::ExportWeak(k)];
            if call { ClientOp::Call { h, work } } else { ClientOp::Send { h, work } }
        })
        .boxed()
}

fn mixed_ops_boxed(base: BoxedStrategy<ClientOp>, extra: Vec<(u32, BoxedStrategy<ClientOp>)>) -> BoxedStrategy<ClientOp> {
    let total_extra: u32 = extra.iter().map(|e| e.0).sum();
    let mut alts = vec![(100u32.saturating_sub(total_extra).max(1), base)];
    alts.extend(extra);
    proptest::strategy::Union::new_weighted(alts).boxed()
}

fn mixed_ops(base: OpWeights, extra: Vec<(u32, BoxedStrategy<ClientOp>)>) -> BoxedStrategy<ClientOp> {
    let total_extra: u32 = extra.iter().map(|e| e.0).sum();
    let mut alts = vec![(100u32.saturating_sub(total_extra).max(1), client_op(base))];
    alts.extend(extra);
    proptest::strategy::Union::new_weighted(alts).boxed()
}

pub fn c03(big: bool) -> BoxedStrategy<Case> {
    let max_ops = if big { 14 } else { 9 };
    let spawn = prop_oneof![
        6 => plain_spawn(true),
        1 => (mailbox(), 2u32..6, any::<bool>()).prop_map(|(mailbox, t, owning)| SpawnSpec::Build { mailbox, strategy: RStrat::Default, timeout: Some(t), fail_on_timeout: false, owning }),
        4 => stream_spawn()
    ];
    let start_fail = prop_oneof![6 => Just(None), 1 => (0u32..3).prop_map(|i| Some((i, FailHow::Err)))];
    let base = OpWeights { stop: 4, halt: 2, try_stop: 2, await_: 3, drop: 5, restart: 8, join: 2, consume: 1, max_sleep: 4, send: 25, call: 20, ..MSG_WEIGHTS };
    let op = mixed_ops(
        base,
        vec![
            (12, msg_op(1, 1, ctx_work(3, 2, 3))),
            (8, (any::<u8>(), 0u8..4).prop_map(|(stream, n)| ClientOp::Feed { stream, n }).boxed()),
            (1, (any::<u8>(), 90u8..140).prop_map(|(stream, n)| ClientOp::Feed { stream, n }).boxed()),
            (2, any::<u8>().prop_map(|stream| ClientOp::EndStream { stream }).boxed()),
        ],
    );
    (spawn, start_fail, (started_with_timers(2), slow_callback(), slow_callback()), 1usize..=3)
        .prop_flat_map(move |(spawn, start_fail, started, n)| {
            let owning = spawn.owning();
            (
                Just(spawn),
                Just(start_fail),
                Just(started),
                grants(n, owning, 2),
                vec(vec(op.clone(), 3..=max_ops), n..=n),
                schedule(if big { 96 } else { 48 }),
            )
        })
        .prop_map(|(spawn, start_fail, (started, stopped, finished), grants, clients, schedule)| {
            // a started callback that suspends (longer than a configured handler timeout)
            let mut started = started;
            if !finished.is_empty() {
                let extra = spawn.timeout().map(|(t, _)| t + 1).unwrap_or(2);
                started.insert(0, Step::Sleep(extra));
            }
            let beh = Behavior { started, start_fail, stopped, finished, ..Default::default() };
            let mut c = Case {
                family: Family::C03,
                actors: one_actor(spawn, beh.clone()),
                // recreated values behave like the original (but never fail on their own)
                default_beh: vec![Behavior { start_fail: None, ..beh }],
                grants,
                clients,
                faults: vec![],
                schedule,
                settle: 0,
            };
            sanitize(&mut c);
            avoid_exact_timeout(&mut c);
            finalize(c)
        })
        .boxed()
}

pub fn c04(big: bool) -> BoxedStrategy<Case> {
    let max_ops = if big { 14 } else { 9 };
    let base = OpWeights { stop: 7, halt: 4, try_stop: 5, await_: 7, drop: 0, give: 2, join: 3, consume: 2, restart: 2, max_sleep: 4, send: 28, call: 24, ping: 5, convert: 8, call_drop: 5, ..MSG_WEIGHTS };
    let op = mixed_ops(base, vec![(8, msg_op(1, 1, ctx_work(3, 3, 0))), (2, h().prop_map(|h| ClientOp::JoinLazyDetach { h }).boxed()), (2, Just(ClientOp::AwaitLazy).boxed())]);
    let spawn = prop_oneof![
        8 => plain_spawn(true),
        2 => (mailbox(), 2u32..6, any::<bool>(), any::<bool>()).prop_map(|(mailbox, t, owning, fail_on_timeout)| SpawnSpec::Build { mailbox, strategy: RStrat::Default, timeout: Some(t), fail_on_timeout, owning }),
        2 => stream_spawn(),
    ];
    let op = mixed_ops_boxed(op, vec![(3, (any::<u8>(), 0u8..3).prop_map(|(stream, n)| ClientOp::Feed { stream, n }).boxed())]);
    (spawn, 2usize..=4, (slow_callback(), prop_oneof![9 => Just(None), 1 => Just(Some((0u32, FailHow::Err))), 1 => Just(Some((1u32, FailHow::Err)))]))
        .prop_flat_map(move |(spawn, n, stopped)| {
            let owning = spawn.owning();
            (Just(spawn), Just(stopped), grants(n, owning, 3), vec(vec(op.clone(), 3..=max_ops), n..=n), schedule(if big { 96 } else { 48 }))
        })
        .prop_map(|(spawn, (stopped, start_fail), grants, clients, schedule)| {
            // a stream-attached actor whose `finished` panics (one in four of them)
            let finish_panic = matches!(spawn, SpawnSpec::Stream { .. }) && schedule.len() % 4 == 1;
            // a stopped() callback that takes longer than the handler timeout (which is about handlers)
            let mut stopped = stopped;
            if let Some((t, _)) = spawn.timeout() {
                if stopped.iter().any(|s| matches!(s, Step::Sleep(_))) {
                    stopped.push(Step::Sleep(t + 1));
                }
            }
            let mut c = Case {
                family: Family::C04,
                actors: one_actor(spawn, Behavior { stopped: stopped.clone(), finished: stopped, start_fail, ..Default::default() }),
                default_beh: vec![],
                grants,
                clients,
                faults: if finish_panic { vec![Fault::FinishPanic { actor: 0 }] } else { vec![] },
                schedule,
                settle: 0,
            };
            sanitize(&mut c);
            avoid_exact_timeout(&mut c);
            finalize(c)
        })
        .boxed()
}

pub fn c05(big: bool) -> BoxedStrategy<Case> {
    let max_ops = if big { 16 } else { 10 };
    let base = OpWeights { stop: 0, drop: 16, give: 5, convert: 30, send: 18, call: 14, ping: 3, yield_: 5, sleep: 5, max_sleep: 6, call_drop: 4, ..MSG_WEIGHTS };
    let started = prop_oneof![
        2 => Just(vec![]),
        3 => vec(prop_oneof![4 => light_timer().prop_map(Step::AddTimer), 1 => (0u8..2).prop_map(Step::Subscribe)], 1..=3),
        // a delayed task that runs for a while once it has fired
        1 => (1u32..=10, 5u32..=40).prop_map(|(ticks, d)| vec![Step::AddTimer(TimerSpec { kind: TimerKind::DelayedExec, ticks, work: vec![Step::Sleep(d)] })]),
    ];
    (prop_oneof![10 => plain_spawn(false), 2 => proptest::option::of(mailbox()).prop_map(|builder| SpawnSpec::Register { builder, timeout: None }), 2 => stream_spawn()], started, 1usize..=3)
        .prop_flat_map(move |(spawn, started, n)| {
            let owning = spawn.owning();
            (
                Just(spawn),
                Just(started),
                // few handles so that the last one is really dropped by the clients
                vec(vec(grant_kind(4), 0..=2), n),
                Just(owning),
                vec(
                    vec(
                        mixed_ops(
                            base,
                            vec![
                                (8, (0u8..2, any::<bool>()).prop_map(|(topic, st)| ClientOp::Publish { how: if st { PubHow::Static } else { PubHow::ViaAddr }, topic, id: 0 }).boxed()),
                                // only meaningful for a stream-attached actor (its stream never ends: the handles decide)
                                (4, (any::<u8>(), 0u8..4).prop_map(|(stream, n)| ClientOp::Feed { stream, n }).boxed()),
                                (1, (any::<u8>(), 90u8..140).prop_map(|(stream, n)| ClientOp::Feed { stream, n }).boxed()),
                                (4, export_weak_op()),
                                (2, h().prop_map(|h| ClientOp::JoinLazyDetach { h }).boxed()),
                                // another instance tries to register (refused while the registered one lives)
                                (2, reg_op(1, [0, 0, 3, 0, 0, 1, 1])),
                            ],
                        ),
                        2..=max_ops,
                    ),
                    n..=n,
                ),
                // tails: drop what is left, then probe the weak handles
                vec(
                    vec(
                        prop_oneof![
                            6 => h().prop_map(|h| ClientOp::Drop { h }),
                            3 => h().prop_map(|h| ClientOp::Upgrade { h }),
                            1 => (h(), work(1, 2)).prop_map(|(h, work)| ClientOp::Send { h, work }),
                            1 => (h(), work(1, 2)).prop_map(|(h, work)| ClientOp::Call { h, work }),
                            1 => (0u32..4).prop_map(ClientOp::Sleep),
                        ],
                        0..=6,
                    ),
                    n..=n,
                ),
                schedule(if big { 96 } else { 48 }),
            )
        })
        .prop_map(|(spawn, started, per, owning, mut clients, tails, schedule)| {
            for (c, t) in clients.iter_mut().zip(tails) {
                c.extend(t);
            }
            let mut grants = vec![];
            if owning {
                grants.push(Grant { client: 0, actor: 0, kind: HKind::Owning });
            } else {
                grants.push(Grant { client: 0, actor: 0, kind: HKind::Addr });
            }
            grants.push(Grant { client: 0, actor: 0, kind: HKind::WeakAddr });
            for (c, kinds) in per.into_iter().enumerate() {
                for kind in kinds {
                    grants.push(Grant { client: c, actor: 0, kind });
                }
            }
            finalize(Case {
                family: Family::C05,
                actors: one_actor(spawn, Behavior { started, ..Default::default() }),
                default_beh: vec![],
                grants,
                clients,
                faults: vec![],
                schedule,
                settle: 0,
            })
        })
        .boxed()
}

pub fn c12(big: bool) -> BoxedStrategy<Case> {
    let max_ops = if big { 16 } else { 10 };
    let mb = prop_oneof![5 => (0u8..=4).prop_map(Mailbox::Bounded), 1 => Just(Mailbox::Unbounded)];
    let spawn = prop_oneof![
        9 => (mb, any::<bool>()).prop_map(|(mailbox, owning)| SpawnSpec::Build { mailbox, strategy: RStrat::Default, timeout: None, fail_on_timeout: false, owning }),
        // the stream builder's bounded terminals must apply the bound as well
        1 => (0u8..=3, any::<bool>()).prop_map(|(n, owning)| SpawnSpec::Stream { builder: Some(Mailbox::Bounded(n)), owning, timeout: None }),
    ];
    let base = OpWeights { send: 55, call: 12, ping: 6, convert: 8, yield_: 5, sleep: 4, give: 1, drop: 0, stop: 2, try_stop: 1, call_drop: 8, max_sleep: 6, ..MSG_WEIGHTS };
    let timers = prop_oneof![
        3 => Just(vec![]),
        2 => vec((prop_oneof![Just(TimerKind::Interval), Just(TimerKind::IntervalWith)], 1u32..=8).prop_map(|(kind, ticks)| Step::AddTimer(TimerSpec { kind, ticks, work: vec![] })), 1..=2),
    ];
    let ctx_weak_sender = (h(), any::<bool>()).prop_map(|(h, call)| {
        let work = vec![Step::ExportWeak(HKind::WeakSender)];
        if call { ClientOp::Call { h, work } } else { ClientOp::Send { h, work } }
    });
    let base_op = mixed_ops(base, vec![(10, (h(), work(2, 6), 1u8..4).prop_map(|(h, work, extra)| ClientOp::SendRepoll { h, work, extra }).boxed()), (3, ctx_weak_sender.boxed())]);
    // 0 = nothing special, 1 = flood of an unbounded mailbox, >= 3000 = one message that takes that long
    let special = prop_oneof![90 => Just(0u32), 4 => Just(1u32), 6 => 3001u32..9000];
    (spawn, timers, 1usize..=4, special)
        .prop_flat_map(move |(spawn, started, n, flood)| {
            let owning = spawn.owning();
            let base_op = base_op.clone();
            let g = vec(vec(prop_oneof![4 => Just(HKind::Addr), 3 => Just(HKind::Sender), 2 => Just(HKind::WeakSender), 1 => Just(HKind::Caller), 1 => Just(HKind::WeakAddr)], 1..=3), n);
            (Just(spawn), Just(started), g, Just((owning, flood)), vec(vec(base_op, 3..=max_ops), n..=n), schedule(if big { 96 } else { 48 }))
        })
        .prop_map(|(mut spawn, mut started, per, (owning, special), mut clients, schedule)| {
            let flood = special == 1;
            if special >= 3000 {
                // a congestion that lasts seconds (virtual time is free): blocked sends stay blocked
                clients[0].insert(0, ClientOp::Send { h: 0, work: vec![Step::Sleep(special)] });
                started.clear();
            }
            let mut grants = vec![];
            if owning {
                grants.push(Grant { client: 0, actor: 0, kind: HKind::Owning });
            }
            grants.push(Grant { client: 0, actor: 0, kind: HKind::Addr });
            for (c, kinds) in per.into_iter().enumerate() {
                for kind in kinds {
                    grants.push(Grant { client: c, actor: 0, kind });
                }
            }
            if flood {
                // an unbounded mailbox far behind: one slow message, then a long run of sends
                spawn = if schedule.len() % 2 == 0 {
                    SpawnSpec::Build { mailbox: Mailbox::Unbounded, strategy: RStrat::Default, timeout: None, fail_on_timeout: false, owning }
                } else {
                    SpawnSpec::Stream { builder: Some(Mailbox::Unbounded), owning, timeout: None }
                };
                let mut prog = vec![ClientOp::Send { h: 0, work: vec![Step::Sleep(6)] }];
                prog.extend((0..90).map(|i| ClientOp::Send { h: (i * 7919) as u16, work: vec![] }));
                clients[0] = prog;
            }
            finalize(Case {
                family: Family::C12,
                actors: one_actor(spawn, Behavior { started, ..Default::default() }),
                default_beh: vec![],
                grants,
                clients,
                faults: vec![],
                schedule,
                settle: 0,
            })
        })
        .boxed()
}

pub fn c07(big: bool) -> BoxedStrategy<Case> {
    let max_ops = if big { 14 } else { 9 };
    let strat = prop_oneof![3 => Just(RStrat::Default), 3 => Just(RStrat::Recreate), 1 => Just(RStrat::NonRestartable)];
    let spawn = prop_oneof![
        1 => Just(SpawnSpec::Spawn),
        1 => prop_oneof![Just(SpawnSpec::SpawnOwning), Just(SpawnSpec::SpawnDefault), Just(SpawnSpec::SpawnDefaultOwning)],
        6 => (mailbox(), strat.clone(), any::<bool>()).prop_map(|(mailbox, strategy, owning)| SpawnSpec::Build { mailbox, strategy, timeout: None, fail_on_timeout: false, owning }),
        2 => (mailbox(), strat, any::<bool>(), 2u32..6, any::<bool>()).prop_map(|(mailbox, strategy, owning, t, fail_on_timeout)| SpawnSpec::Build { mailbox, strategy, timeout: Some(t), fail_on_timeout, owning }),
    ];
    let start_fail = prop_oneof![8 => Just(None), 1 => (1u32..3).prop_map(|i| Some((i, FailHow::Err)))];
    let base = OpWeights { restart: 14, stop: 1, await_: 2, join: 1, drop: 0, max_sleep: 4, send: 28, call: 26, ping: 4, convert: 6, ..MSG_WEIGHTS };
    let timer_in_handler = (light_timer(), h(), any::<bool>()).prop_map(|(t, h, call)| {
        let work = vec![Step::AddTimer(t)];
        if call { ClientOp::Call { h, work } } else { ClientOp::Send { h, work } }
    });
    let op = mixed_ops(base, vec![(10, msg_op(1, 1, ctx_work(3, 0, 4))), (5, timer_in_handler.boxed()), (4, export_weak_op())]);
    let stopped = prop_oneof![3 => slow_callback(), 1 => light_timer().prop_map(|t| vec![Step::AddTimer(t)]), 1 => (light_timer(), 1u32..3).prop_map(|(t, d)| vec![Step::Sleep(d), Step::AddTimer(t)])];
    (spawn, start_fail, (started_with_timers(2), stopped, slow_callback()), 1usize..=3)
        .prop_flat_map(move |(spawn, start_fail, started, n)| {
            let owning = spawn.owning();
            (Just(spawn), Just(start_fail), Just(started), grants(n, owning, 1), vec(vec(op.clone(), 3..=max_ops), n..=n), schedule(if big { 96 } else { 48 }))
        })
        .prop_map(|(spawn, start_fail, (started, stopped, slow), grants, clients, schedule)| {
            // callbacks that suspend, longer than a configured handler timeout (a timeout is about handlers)
            let mut started = started;
            let mut stopped = stopped;
            if let Some((t, _)) = spawn.timeout() {
                if !slow.is_empty() {
                    started.insert(0, Step::Sleep(t + 1));
                    stopped.insert(0, Step::Sleep(t + 2));
                }
            } else {
                started.splice(0..0, slow);
            }
            let beh = Behavior { started, start_fail, stopped, ..Default::default() };
            let c = Case {
                family: Family::C07,
                actors: one_actor(spawn, beh.clone()),
                default_beh: vec![beh],
                grants,
                clients,
                faults: vec![],
                schedule,
                settle: 0,
            };
            let mut c = c;
            avoid_exact_timeout(&mut c);
            finalize(c)
        })
        .boxed()
}

fn any_timer(max_ticks: u32) -> BoxedStrategy<TimerSpec> {
    (
        prop_oneof![3 => Just(TimerKind::Interval), 3 => Just(TimerKind::IntervalWith), 2 => Just(TimerKind::DelayedSend), 2 => Just(TimerKind::DelayedExec)],
        1u32..=max_ticks,
        // tick handlers: mostly instantaneous, sometimes slow - but always faster than the period,
        // so that the actor is not overloaded by its own timer (an ever growing backlog is a user
        // error, not a library matter); slow *messages* (up to 3 periods) come from the clients
        prop_oneof![5 => Just(0u32), 1 => Just(u32::MAX), 1 => 1u32..=100],
    )
        .prop_map(|(kind, ticks, w)| {
            let work = match w {
                0 => vec![],
                u32::MAX => vec![Step::Yield],
                x => {
                    let d = (x * ticks / 101).min(ticks.saturating_sub(1));
                    if d == 0 { vec![Step::Yield] } else { vec![Step::Sleep(d)] }
                }
            };
            TimerSpec { kind, ticks, work }
        })
        .boxed()
}

pub fn c10(big: bool) -> BoxedStrategy<Case> {
    let max_ops = if big { 12 } else { 7 };
    let spawn = prop_oneof![
        5 => plain_spawn(false),
        // restart requests to a non-restartable actor are ignored - its timers included
        1 => (mailbox(), any::<bool>()).prop_map(|(mailbox, owning)| SpawnSpec::Build { mailbox, strategy: RStrat::NonRestartable, timeout: None, fail_on_timeout: false, owning }),
    ];
    // mostly waiting clients: the actor is idle except for its timers
    let base = OpWeights { send: 6, call: 6, ping: 2, convert: 2, yield_: 4, sleep: 60, give: 0, drop: 6, stop: 5, halt: 2, try_stop: 2, restart: 4, max_sleep: 40, ..MSG_WEIGHTS };
    let timer_in_handler = (any_timer(50), h()).prop_map(|(t, h)| ClientOp::Call { h, work: vec![Step::AddTimer(t)] });
    // a long congestion: one very slow message (virtual time is free)
    let congestion = (h(), 1000u32..2500).prop_map(|(h, d)| ClientOp::Send { h, work: vec![Step::Sleep(d)] });
    // a handler that arms a few dozen one-shot timers at once
    let many = (h(), 33u32..=40, 15u32..=30).prop_map(|(h, n, ticks)| ClientOp::Call {
        h,
        work: (0..n).map(|i| Step::AddTimer(TimerSpec { kind: if i % 2 == 0 { TimerKind::DelayedExec } else { TimerKind::DelayedSend }, ticks: ticks + i % 7, work: vec![] })).collect(),
    });
    // a handler that arms a timer and then runs on: longer than any configured handler limit (2..7 ticks),
    // so with a carry-on timeout the invocation is abandoned after its timer was registered - the timer stays
    let arm_then_overrun = (h(), any_timer(50), 8u32..=20, any::<bool>()).prop_map(|(h, t, d, call)| {
        let work = vec![Step::AddTimer(t), Step::Sleep(d)];
        if call { ClientOp::Call { h, work } } else { ClientOp::Send { h, work } }
    });
    let op = mixed_ops(base, vec![(8, timer_in_handler.boxed()), (2, congestion.boxed()), (1, many.boxed()), (3, arm_then_overrun.boxed())]);
    let cause = prop_oneof![
        8 => Just(Cause::None),
        1 => prop_oneof![Just(FailHow::Err), Just(FailHow::Panic)].prop_map(Cause::StartFail),
        2 => (0u32..6).prop_map(Cause::HandlerPanic),
        1 => Just(Cause::StopPanic),
        2 => (1u32..12).prop_map(Cause::Cancel),
        2 => (1u32..6).prop_map(Cause::TimeoutFail),
        2 => (2u32..7).prop_map(Cause::TimeoutCarryOn),
    ];
    (spawn, vec(any_timer(50).prop_map(Step::AddTimer), 0..=4), 1usize..=2, cause)
        .prop_flat_map(move |(spawn, started, n, cause)| {
            let owning = spawn.owning();
            (Just(spawn), Just((started, cause)), grants(n, owning, 1), vec(vec(op.clone(), 1..=max_ops), n..=n), schedule(32))
        })
        .prop_map(|(mut spawn, (mut started, cause), grants, clients, schedule)| {
            // termination "by any cause": failures too
            let mut faults = vec![];
            match cause {
                Cause::None | Cause::FinishPanic | Cause::RestartFail(_) => {}
                Cause::TimeoutCarryOn(t) => {
                    let (mailbox, owning) = (spawn.mailbox(), spawn.owning());
                    spawn = SpawnSpec::Build { mailbox, strategy: spawn.strategy(), timeout: Some(t), fail_on_timeout: false, owning };
                    let kind = if schedule.len() % 2 == 0 { TimerKind::Interval } else { TimerKind::IntervalWith };
                    started.insert(0, Step::AddTimer(TimerSpec { kind, ticks: 3 * t + 4, work: vec![Step::Sleep(t + 2)] }));
                }
                Cause::StartFail(how) => faults.push(Fault::StartFail { actor: 0, inc: 0, how }),
                Cause::HandlerPanic(kth) => faults.push(Fault::HandlerPanic { actor: 0, kth }),
                Cause::StopPanic => faults.push(Fault::StopPanic { actor: 0 }),
                Cause::Cancel(j) => faults.push(Fault::CancelActor { actor: 0, before_poll: j }),
                Cause::TimeoutFail(t) => {
                    let (mailbox, owning) = (spawn.mailbox(), spawn.owning());
                    spawn = SpawnSpec::Build { mailbox, strategy: RStrat::Default, timeout: Some(t), fail_on_timeout: true, owning };
                }
            }
            let mut c = Case {
                family: Family::C10,
                actors: one_actor(spawn, Behavior { started, ..Default::default() }),
                default_beh: vec![],
                grants,
                clients,
                faults,
                schedule,
                settle: 0,
            };
            avoid_exact_timeout(&mut c);
            if c.actors[0].spawn.strategy() != RStrat::NonRestartable {
                // restarts of restartable actors (timers aborted and re-registered) belong to C07
                for cl in &mut c.clients {
                    for op in cl.iter_mut() {
                        if matches!(op, ClientOp::Restart { .. }) {
                            *op = ClientOp::Yield;
                        }
                    }
                }
            }
            // at most one very slow message per case
            let mut long_seen = false;
            for cl in &mut c.clients {
                for op in cl.iter_mut() {
                    if let ClientOp::Send { work, .. } = op {
                        if work.iter().any(|s| matches!(s, Step::Sleep(d) if *d >= 1000)) {
                            if long_seen {
                                work.clear();
                            }
                            long_seen = true;
                        }
                    }
                }
            }
            // at most one repeating timer with a slow handler (load < 1): the actor must be able
            // to keep up with its own timers (none at all next to a very slow message)
            let mut slow_seen = long_seen;
            let mut fix = |t: &mut TimerSpec| {
                if t.work.iter().any(|s| matches!(s, Step::Sleep(_))) {
                    if slow_seen {
                        t.work.clear();
                    }
                    slow_seen = true;
                }
            };
            for s in &mut c.actors[0].beh.started {
                if let Step::AddTimer(t) = s {
                    fix(t);
                }
            }
            for cl in &mut c.clients {
                for op in cl.iter_mut() {
                    if let ClientOp::Call { work, .. } | ClientOp::Send { work, .. } = op {
                        for s in work.iter_mut() {
                            if let Step::AddTimer(t) = s {
                                fix(t);
                            }
                        }
                    }
                }
            }
            finalize(c)
        })
        .boxed()
}

pub fn c11(big: bool) -> BoxedStrategy<Case> {
    let max_ops = if big { 12 } else { 8 };
    let tval = prop_oneof![12 => 1u32..=100, 1 => 1000u32..=2500, 1 => Just(0u32)];
    let strat = prop_oneof![4 => Just(RStrat::Default), 1 => Just(RStrat::Recreate), 1 => Just(RStrat::NonRestartable)];
    (proptest::option::weighted(0.85, tval), any::<bool>(), (mailbox(), strat), any::<bool>(), 1usize..=3)
        .prop_flat_map(move |(timeout, fail, mb, owning, n)| {
            let t = timeout.unwrap_or(20);
            // durations around the limit: t-1, t+1, << t, >> t, split into 1-3 sleeps
            let dur = prop_oneof![
                3 => Just(t.saturating_sub(1)),
                3 => Just(t + 1),
                3 => 0..=t / 2,
                2 => (t + 2)..=(3 * t + 5),
                1 => Just(0u32),
                // without a configured limit even a very long invocation completes
                1 => if timeout.is_none() { (1001u32..=2600).boxed() } else { (0..=t / 2).boxed() },
            ];
            let work = (dur, 1usize..=3, any::<bool>()).prop_map(|(d, parts, y)| {
                let mut w = vec![];
                let mut left = d;
                for p in 0..parts {
                    let x = if p + 1 == parts { left } else { left / 2 };
                    left -= x;
                    w.push(Step::Sleep(x));
                    if y {
                        w.push(Step::Yield);
                    }
                }
                w
            });
            let op = prop_oneof![
                5 => (h(), work.clone()).prop_map(|(h, work)| ClientOp::Call { h, work }),
                // a caller that gives up (select!, client-side timeout) changes nothing for the invocation
                2 => (h(), work.clone(), 0u8..4).prop_map(|(h, work, polls)| ClientOp::CallDrop { h, work, polls }),
                // handles go away while messages are queued: the limit holds for the rest of the queue too
                1 => h().prop_map(|h| ClientOp::Drop { h }),
                4 => (h(), work).prop_map(|(h, work)| ClientOp::Send { h, work }),
                1 => h().prop_map(|h| ClientOp::Ping { h }),
                1 => Just(ClientOp::Yield),
                1 => (0..=t).prop_map(ClientOp::Sleep),
                1 => h().prop_map(|h| ClientOp::AwaitClone { h }),
                1 => h().prop_map(|h| ClientOp::Join { h }),
            ];
            (Just((timeout, fail, mb, owning)), grants(n, owning, 1), vec(vec(op, 2..=max_ops), n..=n), schedule(32))
        })
        .prop_map(|((timeout, fail_on_timeout, (mailbox, strategy), owning), grants, clients, schedule)| {
            // one in eight is a service registered through the builder's own terminal
            let spawn = if schedule.len() % 8 == 3 && !owning {
                SpawnSpec::Register { builder: Some(mailbox), timeout: timeout.map(|t| (t, fail_on_timeout)) }
            } else {
                SpawnSpec::Build { mailbox, strategy, timeout, fail_on_timeout, owning }
            };
            // one in four has a repeating timer whose tick handler is slower or faster than the limit
            let mut beh = Behavior::default();
            if let (Some(t), true) = (timeout, schedule.len() % 4 == 1) {
                let slow = schedule.len() % 8 == 1;
                let kind = if schedule.len() % 16 < 8 { TimerKind::Interval } else { TimerKind::IntervalWith };
                let d = if slow { t + 2 } else { t / 2 };
                beh.started.push(Step::AddTimer(TimerSpec { kind, ticks: 3 * t + 7, work: if d == 0 { vec![] } else { vec![Step::Sleep(d)] } }));
            }
            let mut c = Case {
                family: Family::C11,
                actors: one_actor(spawn, beh.clone()),
                default_beh: vec![beh],
                grants,
                clients,
                faults: vec![],
                schedule,
                settle: 0,
            };
            avoid_exact_timeout(&mut c);
            finalize(c)
        })
        .boxed()
}

pub fn c13(big: bool) -> BoxedStrategy<Case> {
    let max_ops = if big { 16 } else { 10 };
    let base = OpWeights { send: 22, call: 18, ping: 4, convert: 6, yield_: 6, sleep: 5, give: 1, drop: 5, stop: 4, halt: 1, try_stop: 1, await_: 3, join: 2, max_sleep: 4, call_drop: 4, ..MSG_WEIGHTS };
    let op = mixed_ops(
        base,
        vec![
            (22, (any::<u8>(), 0u8..5).prop_map(|(stream, n)| ClientOp::Feed { stream, n }).boxed()),
            (2, (any::<u8>(), 90u8..140).prop_map(|(stream, n)| ClientOp::Feed { stream, n }).boxed()),
            (3, any::<u8>().prop_map(|stream| ClientOp::EndStream { stream }).boxed()),
        ],
    );
    (stream_spawn(), started_with_timers(1), 1usize..=3, slow_callback(), slow_callback())
        .prop_flat_map(move |(spawn, started, n, finished, stopped)| {
            let owning = spawn.owning();
            (Just(spawn), Just((started, finished, stopped)), grants(n, owning, 1), vec(vec(op.clone(), 3..=max_ops), n..=n), schedule(if big { 96 } else { 48 }))
        })
        .prop_map(|(spawn, (started, finished, stopped), grants, clients, schedule)| {
            let mut c = Case {
                family: Family::C13,
                actors: one_actor(spawn, Behavior { started, finished, stopped: stopped.clone(), aux_work: stopped, ..Default::default() }),
                default_beh: vec![],
                grants,
                clients,
                faults: vec![],
                schedule,
                settle: 0,
            };
            sanitize(&mut c);
            finalize(c)
        })
        .boxed()
}

pub fn c17(big: bool) -> BoxedStrategy<Case> {
    let max_ops = if big { 14 } else { 9 };
    let spawn = prop_oneof![
        2 => Just(SpawnSpec::SpawnOwning),
        1 => Just(SpawnSpec::SpawnDefaultOwning),
        4 => mailbox().prop_map(|mailbox| SpawnSpec::Build { mailbox, strategy: RStrat::Default, timeout: None, fail_on_timeout: false, owning: true }),
        2 => (mailbox(), 2u32..6, any::<bool>()).prop_map(|(mailbox, t, fail_on_timeout)| SpawnSpec::Build { mailbox, strategy: RStrat::Default, timeout: Some(t), fail_on_timeout, owning: true }),
        1 => proptest::option::of(mailbox()).prop_map(|builder| SpawnSpec::Stream { builder, owning: true, timeout: None }),
    ];
    let cause = prop_oneof![
        6 => Just(Cause::None),
        1 => prop_oneof![Just(FailHow::Err), Just(FailHow::Panic)].prop_map(Cause::StartFail),
        2 => (0u32..6).prop_map(Cause::HandlerPanic),
        1 => Just(Cause::StopPanic),
        1 => Just(Cause::FinishPanic),
        1 => (0u32..10).prop_map(Cause::Cancel),
        1 => prop_oneof![Just(FailHow::Err), Just(FailHow::Panic)].prop_map(Cause::RestartFail),
    ];
    let base = OpWeights { send: 22, call: 22, ping: 4, convert: 10, yield_: 4, sleep: 3, give: 2, drop: 3, stop: 6, halt: 1, await_: 2, join: 12, consume: 4, detach: 3, restart: 3, max_sleep: 4, ..MSG_WEIGHTS };
    let op = mixed_ops(base, vec![(5, msg_op(1, 1, ctx_work(3, 3, 0))), (3, h().prop_map(|h| ClientOp::JoinStash { h }).boxed()), (3, h().prop_map(|h| ClientOp::JoinDiscard { h }).boxed()), (3, h().prop_map(|h| ClientOp::JoinLazyDetach { h }).boxed()), (3, h().prop_map(|h| ClientOp::JoinPollDrop { h }).boxed()), (4, Just(ClientOp::AwaitLazy).boxed()), (2, (any::<u8>(), 0u8..3).prop_map(|(stream, n)| ClientOp::Feed { stream, n }).boxed()), (2, any::<u8>().prop_map(|stream| ClientOp::EndStream { stream }).boxed())]);
    (spawn, cause, 1usize..=3, slow_callback())
        .prop_flat_map(move |(spawn, cause, n, stopped)| (Just(spawn), Just((cause, stopped)), grants(n, true, 1), vec(vec(op.clone(), 3..=max_ops), n..=n), schedule(if big { 96 } else { 48 })))
        .prop_map(|(mut spawn, (cause, stopped), grants, clients, schedule)| {
            let mut faults = vec![];
            match cause {
                Cause::StartFail(how) => faults.push(Fault::StartFail { actor: 0, inc: 0, how }),
                Cause::HandlerPanic(kth) => faults.push(Fault::HandlerPanic { actor: 0, kth }),
                Cause::StopPanic => faults.push(Fault::StopPanic { actor: 0 }),
                Cause::RestartFail(how) => faults.push(Fault::StartFail { actor: 0, inc: 1, how }),
                Cause::FinishPanic => {
                    // only stream-attached actors have a `finished` callback
                    if !matches!(spawn, SpawnSpec::Stream { .. }) {
                        spawn = SpawnSpec::Stream { builder: spawn.mailbox_opt(), owning: true, timeout: None };
                    }
                    faults.push(Fault::FinishPanic { actor: 0 });
                }
                Cause::Cancel(j) => faults.push(Fault::CancelActor { actor: 0, before_poll: j }),
                _ => {}
            }
            let mut stopped = stopped;
            if let Some((t, _)) = spawn.timeout() {
                // a stopped() callback that takes longer than the handler timeout
                if stopped.iter().any(|s| matches!(s, Step::Sleep(_))) {
                    stopped.push(Step::Sleep(t + 1));
                }
            }
            let beh = Behavior { stopped, ..Default::default() };
            let mut c = Case { family: Family::C17, actors: one_actor(spawn, beh.clone()), default_beh: vec![beh], grants, clients, faults, schedule, settle: 0 };
            avoid_exact_timeout(&mut c);
            sanitize(&mut c);
            finalize(c)
        })
        .boxed()
}

pub fn c15(big: bool) -> BoxedStrategy<Case> {
    let max_ops = if big { 14 } else { 9 };
    let spawn = prop_oneof![
        1 => Just(SpawnSpec::Spawn),
        1 => Just(SpawnSpec::SpawnOwning),
        4 => (mailbox(), any::<bool>()).prop_map(|(mailbox, owning)| SpawnSpec::Build { mailbox, strategy: RStrat::Default, timeout: None, fail_on_timeout: false, owning }),
        1 => (mailbox(), any::<bool>()).prop_map(|(mailbox, owning)| SpawnSpec::Build { mailbox, strategy: RStrat::Recreate, timeout: None, fail_on_timeout: false, owning }),
        1 => (mailbox(), any::<bool>()).prop_map(|(mailbox, owning)| SpawnSpec::Build { mailbox, strategy: RStrat::NonRestartable, timeout: None, fail_on_timeout: false, owning }),
        1 => (mailbox(), any::<bool>(), 2u32..6).prop_map(|(mailbox, owning, t)| SpawnSpec::Build { mailbox, strategy: RStrat::Default, timeout: Some(t), fail_on_timeout: false, owning }),
    ];
    let base = OpWeights { send: 16, call: 16, ping: 2, convert: 22, yield_: 4, sleep: 14, give: 3, drop: 10, stop: 1, await_: 2, max_sleep: 10, ..MSG_WEIGHTS };
    let op = mixed_ops(base, vec![(14, msg_op(1, 2, ctx_work(2, 1, 6))), (10, h().prop_map(|h| ClientOp::Upgrade { h }).boxed()), (6, export_weak_op()), (3, (h(), 6u32..10).prop_map(|(h, d)| ClientOp::Send { h, work: vec![Step::Sleep(d)] }).boxed())]);
    let timers = prop_oneof![
        1 => Just(vec![]),
        3 => vec((1u32..=12).prop_map(|ticks| Step::AddTimer(TimerSpec { kind: TimerKind::Interval, ticks, work: vec![] })), 1..=2),
    ];
    // any non-empty combination of strong kinds, plus weak handles of all kinds
    let strong = vec(prop_oneof![2 => Just(HKind::Addr), 3 => Just(HKind::Sender), 4 => Just(HKind::Caller)], 1..=3);
    let weak = vec(prop_oneof![Just(HKind::WeakAddr), Just(HKind::WeakSender), Just(HKind::WeakCaller)], 1..=3);
    (spawn, timers, 1usize..=2, any::<bool>())
        .prop_flat_map(move |(spawn, started, n, two)| {
            (Just(spawn), Just(started), vec((strong.clone(), weak.clone()), n..=n), Just(two), vec(vec(op.clone(), 3..=max_ops), n..=n), schedule(if big { 96 } else { 48 }), any::<bool>())
        })
        .prop_map(|(spawn, started, per, two, clients, schedule, give_owning)| {
            let mut actors = one_actor(spawn.clone(), Behavior { started: started.clone(), ..Default::default() });
            if two {
                // a second actor: identity must not be mixed up by conversions
                actors.push(ActorSpec { kind: 0, spawn: SpawnSpec::Spawn, parent: None, beh: Behavior::default(), peer: None });
            }
            let mut grants = vec![];
            if spawn.owning() && give_owning {
                grants.push(Grant { client: 0, actor: 0, kind: HKind::Owning });
            }
            for (c, (s, w)) in per.into_iter().enumerate() {
                for kind in s.into_iter().chain(w) {
                    grants.push(Grant { client: c, actor: 0, kind });
                }
                if two {
                    grants.push(Grant { client: c, actor: 1, kind: HKind::Addr });
                    grants.push(Grant { client: c, actor: 1, kind: HKind::WeakCaller });
                }
            }
            // a value recreated from Default behaves like the one it replaces (timers in started)
            let default_beh = vec![Behavior { started, ..Default::default() }];
            let mut c = Case { family: Family::C15, actors, default_beh, grants, clients, faults: vec![], schedule, settle: 0 };
            avoid_exact_timeout(&mut c);
            finalize(c)
        })
        .boxed()
}

pub fn c16(big: bool) -> BoxedStrategy<Case> {
    let max_ops = if big { 12 } else { 8 };
    let reg = prop_oneof![Just(ChildReg::Unit), Just(ChildReg::Msg0), Just(ChildReg::Msg1)];
    let child = (any::<u8>(), (reg.clone(), proptest::option::weighted(0.25, reg.clone())), proptest::bool::weighted(0.25), 0u8..2, proptest::option::weighted(0.3, mailbox()));
    let bcast = (reg, h(), any::<bool>()).prop_map(|(reg, h, call)| {
        let work = vec![Step::SendToChildren { reg, tag: 0 }];
        if call { ClientOp::Call { h, work } } else { ClientOp::Send { h, work } }
    });
    let base = OpWeights { send: 14, call: 14, ping: 3, convert: 4, yield_: 6, sleep: 8, give: 1, drop: 8, stop: 6, halt: 2, try_stop: 1, await_: 2, restart: 5, max_sleep: 4, ..MSG_WEIGHTS };
    let op = mixed_ops(base, vec![(30, bcast.boxed()), (4, msg_op(1, 1, ctx_work(2, 3, 2)))]);
    let cause = prop_oneof![
        4 => Just(Cause::None),
        1 => Just(Cause::StartFail(FailHow::Err)),
        1 => Just(Cause::StartFail(FailHow::Panic)),
        3 => (0u32..6).prop_map(Cause::HandlerPanic),
        1 => Just(Cause::StopPanic),
        2 => (1u32..10).prop_map(Cause::Cancel),
    ];
    (vec(child, 1..=5), cause, 1usize..=2, (plain_spawn(true), slow_callback()))
        .prop_flat_map(move |(kids, cause, n, root_spawn)| {
            let owning = root_spawn.0.owning();
            (Just(kids), Just(cause), Just(root_spawn), grants(n, owning, 1), vec(vec(op.clone(), 2..=max_ops), n..=n), schedule(if big { 96 } else { 48 }))
        })
        .prop_map(|(kids, cause, (root_spawn, slow_stopped), grants, clients, schedule)| {
            let mut actors = vec![ActorSpec { kind: 0, spawn: root_spawn, parent: None, beh: Behavior { stopped: slow_stopped, ..Default::default() }, peer: None }];
            let mut depths = vec![0usize];
            for (psel, (under, also), outside, kind, mb) in kids {
                let also_under = also.filter(|a| *a != under);
                // parent among the existing nodes with depth < 3
                let cands: Vec<usize> = (0..actors.len()).filter(|i| depths[*i] < 3).collect();
                let parent = cands[(psel as usize * cands.len()) >> 8];
                depths.push(depths[parent] + 1);
                let spawn = match mb {
                    None if psel % 11 == 3 => SpawnSpec::Stream { builder: None, owning: false, timeout: None },
                    None => SpawnSpec::Spawn,
                    Some(mailbox) if psel % 11 == 4 => SpawnSpec::Stream { builder: Some(mailbox), owning: false, timeout: None },
                    Some(mailbox) => SpawnSpec::Build { mailbox, strategy: RStrat::Default, timeout: None, fail_on_timeout: false, owning: false },
                };
                // some children run timers of their own (which must not keep them alive once released)
                let started = match psel % 7 {
                    0 => vec![Step::AddTimer(TimerSpec { kind: TimerKind::Interval, ticks: 1 + (psel as u32 % 5), work: vec![] })],
                    1 => vec![Step::AddTimer(TimerSpec { kind: TimerKind::IntervalWith, ticks: 1 + (psel as u32 % 5), work: vec![] })],
                    _ => vec![],
                };
                actors.push(ActorSpec { kind, spawn, parent: Some(ChildOf { parent, under, outside, also_under }), beh: Behavior { started, ..Default::default() }, peer: None });
            }
            let mut faults = vec![];
            match cause {
                Cause::StartFail(how) => faults.push(Fault::StartFail { actor: 0, inc: 0, how }),
                Cause::HandlerPanic(kth) => faults.push(Fault::HandlerPanic { actor: 0, kth }),
                Cause::StopPanic => faults.push(Fault::StopPanic { actor: 0 }),
                Cause::Cancel(j) => faults.push(Fault::CancelActor { actor: 0, before_poll: j }),
                _ => {}
            }
            let mut c = Case { family: Family::C16, actors, default_beh: vec![], grants, clients, faults, schedule, settle: 0 };
            // unique broadcast tags
            let mut next = 1;
            for cl in &mut c.clients {
                for op in cl.iter_mut() {
                    if let ClientOp::Send { work, .. } | ClientOp::Call { work, .. } | ClientOp::CallDrop { work, .. } | ClientOp::SendRepoll { work, .. } | ClientOp::SendDrop { work, .. } = op {
                        for s in work.iter_mut() {
                            if let Step::SendToChildren { tag, .. } = s {
                                *tag = next;
                                next += 1;
                            }
                        }
                    }
                }
            }
            finalize(c)
        })
        .boxed()
}

fn reg_op(kinds: u8, weights: [u32; 7]) -> BoxedStrategy<ClientOp> {
    let ops = [RegOp::FromRegistry, RegOp::Setup, RegOp::Register, RegOp::Replace, RegOp::Unregister, RegOp::TryFromRegistry, RegOp::AlreadyRunning];
    let alts: Vec<(u32, BoxedStrategy<RegOp>)> = ops.iter().zip(weights).filter(|(_, w)| *w > 0).map(|(o, w)| (w, Just(*o).boxed())).collect();
    (proptest::strategy::Union::new_weighted(alts), 0..kinds).prop_map(|(op, kind)| ClientOp::Reg { op, kind }).boxed()
}

pub fn c14(big: bool) -> BoxedStrategy<Case> {
    let max_ops = if big { 14 } else { 9 };
    let spawn = prop_oneof![
        3 => Just(SpawnSpec::Register { builder: None, timeout: None }),
        1 => mailbox().prop_map(|m| SpawnSpec::Register { builder: Some(m), timeout: None }),
        2 => plain_spawn(false),
    ];
    let cause = prop_oneof![6 => Just(Cause::None), 2 => (0u32..5).prop_map(Cause::HandlerPanic), 1 => Just(Cause::StartFail(FailHow::Err)), 1 => (1u32..8).prop_map(Cause::Cancel)];
    // client 0: registry operations (sequential), stops, queries; the others: awaits and queries
    let base0 = OpWeights { send: 6, call: 8, ping: 2, convert: 8, yield_: 4, sleep: 6, give: 2, drop: 3, stop: 10, halt: 1, try_stop: 3, await_: 2, query: 26, max_sleep: 3, ..MSG_WEIGHTS };
    // the broker behind ctx.subscribe is an on-demand service too: it is stopped (awaited or not) and the
    // actor subscribes again, from a handler or - after a restart - from `started`
    let resub = (h(), any::<bool>()).prop_map(|(h, call)| {
        let work = vec![Step::Subscribe(0)];
        if call { ClientOp::Call { h, work } } else { ClientOp::Send { h, work } }
    });
    let op0 = mixed_ops(
        OpWeights { restart: 2, ..base0 },
        vec![(20, reg_op(1, [6, 1, 4, 1, 1, 5, 2])), (6, msg_op(1, 1, ctx_work(2, 4, 0))), (3, any::<bool>().prop_map(|wait| ClientOp::BrokerHalt { topic: 0, wait }).boxed()), (4, resub.boxed())],
    );
    let base_n = OpWeights { send: 6, call: 8, ping: 2, convert: 6, yield_: 6, sleep: 10, give: 2, drop: 2, stop: 4, halt: 2, try_stop: 2, await_: 10, query: 40, max_sleep: 3, ..MSG_WEIGHTS };
    let opn = client_op(base_n);
    (spawn, cause, 1usize..=3)
        .prop_flat_map(move |(spawn, cause, n)| {
            let owning = spawn.owning();
            (
                Just(spawn),
                Just(cause),
                grants(n, owning, 3),
                vec(op0.clone(), 3..=max_ops),
                vec(vec(opn.clone(), 2..=max_ops), (n - 1)..=(n - 1)),
                schedule(if big { 96 } else { 48 }),
            )
        })
        .prop_map(|(spawn, cause, mut grants, c0, mut rest, schedule)| {
            let mut faults = vec![];
            match cause {
                Cause::StartFail(how) => faults.push(Fault::StartFail { actor: 0, inc: 0, how }),
                Cause::HandlerPanic(kth) => faults.push(Fault::HandlerPanic { actor: 0, kth }),
                Cause::Cancel(j) => faults.push(Fault::CancelActor { actor: 0, before_poll: j }),
                _ => {}
            }
            grants.push(Grant { client: 0, actor: 0, kind: HKind::WeakAddr });
            let mut clients = vec![c0];
            clients.append(&mut rest);
            let stopped = if schedule.len() % 3 == 0 { vec![Step::Yield, Step::Sleep(2), Step::Yield] } else { vec![] };
            let started = if schedule.len() % 4 == 1 { vec![Step::Subscribe(0)] } else { vec![] };
            finalize(Case { family: Family::C14, actors: one_actor(spawn, Behavior { stopped, started, ..Default::default() }), default_beh: vec![], grants, clients, faults, schedule, settle: 0 })
        })
        .boxed()
}

pub fn c08(big: bool) -> BoxedStrategy<Case> {
    let max_ops = if big { 7 } else { 5 };
    // handles come from the registry operations themselves
    let base = OpWeights { send: 3, call: 5, ping: 2, convert: 0, yield_: 8, sleep: 5, give: 0, drop: 4, stop: 30, halt: 8, try_stop: 0, await_: 3, max_sleep: 3, ..MSG_WEIGHTS };
    // a service instance may also die of a panicking handler (an abnormal end nobody announces)
    let crash = (h(), any::<bool>()).prop_map(|(h, call)| {
        let work = vec![Step::Panic];
        if call { ClientOp::Call { h, work } } else { ClientOp::Send { h, work } }
    });
    let op = mixed_ops(base, vec![(48, reg_op(2, [12, 2, 5, 2, 2, 5, 4])), (8, msg_op(1, 1, ctx_work(1, 5, 0))), (6, h().prop_map(|h| ClientOp::RegisterHeld { h }).boxed()), (5, crash.boxed())]);
    let nested = prop_oneof![6 => Just(false), 1 => Just(true)];
    let pre = prop_oneof![2 => Just(None), 1 => proptest::option::of(mailbox()).prop_map(Some)];
    (1usize..=4, nested, pre)
        .prop_flat_map(move |(n, nested, pre)| (Just(nested), Just(pre), vec(vec(op.clone(), 2..=max_ops), n..=n), schedule(if big { 128 } else { 64 })))
        .prop_map(|(nested, pre, clients, schedule)| {
            let mut default_beh = vec![Behavior::default(), Behavior::default()];
            if nested {
                // the default instance of service 0 uses service 1 when it starts
                default_beh[0].started.push(Step::Lookup(1));
            }
            let mut actors = vec![];
            let mut grants = vec![];
            if let Some(builder) = pre {
                actors.push(ActorSpec { kind: 0, spawn: SpawnSpec::Register { builder, timeout: None }, parent: None, beh: Behavior::default(), peer: None });
                grants.push(Grant { client: 0, actor: 0, kind: HKind::Addr });
            }
            finalize(Case { family: Family::C08, actors, default_beh, grants, clients, faults: vec![], schedule, settle: 0 })
        })
        .boxed()
}

pub fn c09(big: bool) -> BoxedStrategy<Case> {
    let max_ops = if big { 12 } else { 8 };
    let sub_spawn = prop_oneof![
        6 => Just(SpawnSpec::Spawn),
        2 => (0u8..=2).prop_map(|n| SpawnSpec::Build { mailbox: Mailbox::Bounded(n), strategy: RStrat::Default, timeout: None, fail_on_timeout: false, owning: false }),
        // a subscriber that is recreated from Default on restart keeps its identity - and its subscriptions
        1 => mailbox().prop_map(|mailbox| SpawnSpec::Build { mailbox, strategy: RStrat::Recreate, timeout: None, fail_on_timeout: false, owning: false }),
    ];
    let sub_started = prop_oneof![2 => Just(vec![]), 7 => Just(vec![Step::Subscribe(0)]), 1 => Just(vec![Step::Subscribe(1)]), 2 => Just(vec![Step::Subscribe(0), Step::Subscribe(1)])];
    let topic = prop_oneof![5 => Just(0u8), 1 => Just(1u8)];
    let how = prop_oneof![Just(PubHow::Static), Just(PubHow::ViaAddr)];
    let op = prop_oneof![
        45 => (how, topic.clone()).prop_map(|(how, topic)| ClientOp::Publish { how, topic, id: 0 }),
        14 => (h(), topic.clone()).prop_map(|(h, topic)| ClientOp::SubscribeFor { h, topic }),
        8 => (h(), topic.clone()).prop_map(|(h, topic)| ClientOp::UnsubscribeFor { h, topic }),
        8 => topic.clone().prop_map(|topic| ClientOp::BrokerPing { topic }),
        6 => h().prop_map(|h| ClientOp::Stop { h }),
        3 => h().prop_map(|h| ClientOp::Drop { h }),
        4 => h().prop_map(|h| ClientOp::Restart { h }),
        8 => (h(), topic, any::<bool>()).prop_map(|(h, topic, call)| {
            let work = vec![Step::Publish { topic, id: 0 }];
            if call { ClientOp::Call { h, work } } else { ClientOp::Send { h, work } }
        }),
        3 => (h(), work(1, 2)).prop_map(|(h, work)| ClientOp::Send { h, work }),
        1 => (h(), 3001u32..7000).prop_map(|(h, d)| ClientOp::Send { h, work: vec![Step::Sleep(d)] }),
        5 => Just(ClientOp::Yield),
        4 => (0u32..3).prop_map(ClientOp::Sleep),
    ];
    // which client holds an address of which subscriber: mostly everybody, but also subscribers that nobody
    // holds (they subscribe in `started` and are gone at once: a stale entry next to terminated-but-held ones)
    let held = (vec(prop::bool::weighted(0.9), 12..=12), vec(prop::bool::weighted(0.85), 4..=4)).prop_map(|(mut h, a)| {
        for (i, x) in h.iter_mut().enumerate() {
            *x = *x && a[i % 4];
        }
        h
    });
    (vec((sub_spawn, sub_started), 1..=4), 1usize..=3, held)
        .prop_flat_map(move |(subs, n, held)| (Just(subs), vec(vec(op.clone(), 3..=max_ops), n..=n), schedule(if big { 128 } else { 64 }), Just(held)))
        .prop_map(|(subs, mut clients, schedule, held)| {
            let mut actors: Vec<ActorSpec> = subs.into_iter().map(|(spawn, started)| ActorSpec { kind: 0, spawn, parent: None, beh: Behavior { started, ..Default::default() }, peer: None }).collect();
            // values recreated from Default behave like the value they replace (one behaviour per kind)
            let mut default_beh = vec![];
            if let Some(first) = actors.iter().find(|a| a.spawn.strategy() == RStrat::Recreate).map(|a| a.beh.clone()) {
                for a in actors.iter_mut().filter(|a| a.spawn.strategy() == RStrat::Recreate) {
                    a.beh = first.clone();
                }
                default_beh = vec![first];
            }
            let mut grants = vec![];
            for c in 0..clients.len() {
                for a in 0..actors.len() {
                    if held[c * 4 + a] {
                        grants.push(Grant { client: c, actor: a, kind: HKind::Addr });
                    }
                }
            }
            // unique publication ids
            let mut next = 1;
            for cl in &mut clients {
                for op in cl.iter_mut() {
                    match op {
                        ClientOp::Publish { id, .. } => {
                            *id = next;
                            next += 1;
                        }
                        ClientOp::Send { work, .. } | ClientOp::Call { work, .. } | ClientOp::CallDrop { work, .. } | ClientOp::SendRepoll { work, .. } | ClientOp::SendDrop { work, .. } => {
                            for s in work.iter_mut() {
                                if let Step::Publish { id, .. } = s {
                                    *id = next;
                                    next += 1;
                                }
                            }
                        }
                        _ => {}
                    }
                }
            }
            let mut c = finalize(Case { family: Family::C09, actors, default_beh, grants, clients, faults: vec![], schedule, settle: 0 });
            c.settle += 20;
            c
        })
        .boxed()
}

pub fn c06(big: bool) -> BoxedStrategy<Case> {
    let max_ops = if big { 9 } else { 6 };
    let t_spawn = prop_oneof![
        1 => Just(SpawnSpec::Spawn),
        1 => Just(SpawnSpec::SpawnOwning),
        4 => (mailbox(), any::<bool>()).prop_map(|(mailbox, owning)| SpawnSpec::Build { mailbox, strategy: RStrat::Default, timeout: None, fail_on_timeout: false, owning }),
        2 => Just(SpawnSpec::Register { builder: None, timeout: None }),
        2 => stream_spawn(),
    ];
    let reg = prop_oneof![Just(ChildReg::Unit), Just(ChildReg::Msg0)];
    let kids = vec((reg, proptest::bool::weighted(0.3)), 0..=3);
    let base = OpWeights { send: 20, call: 26, ping: 6, convert: 8, yield_: 5, sleep: 5, give: 1, drop: 2, stop: 2, halt: 1, try_stop: 1, await_: 5, join: 3, restart: 3, max_sleep: 6, ..MSG_WEIGHTS };
    let peer_call = (h(), any::<bool>()).prop_map(|(h, call)| {
        let work = vec![Step::CallPeer];
        if call { ClientOp::Call { h, work } } else { ClientOp::Send { h, work } }
    });
    let op = mixed_ops(
        base,
        vec![
            (14, peer_call.boxed()),
            (8, reg_op(1, [3, 2, 0, 0, 0, 3, 2])),
            // only meaningful when T is stream-attached
            (5, (any::<u8>(), 0u8..4).prop_map(|(stream, n)| ClientOp::Feed { stream, n }).boxed()),
            (1, any::<u8>().prop_map(|stream| ClientOp::EndStream { stream }).boxed()),
        ],
    );
    let started = prop_oneof![
        5 => started_with_timers(2),
        // a delayed task that is still running when T dies
        1 => (1u32..=4, 5u32..=30).prop_map(|(ticks, d)| vec![Step::AddTimer(TimerSpec { kind: TimerKind::DelayedExec, ticks, work: vec![Step::Sleep(d)] })]),
        // a few dozen one-shot timers pending when T dies
        1 => (33u32..=40, 8u32..=20).prop_map(|(n, ticks)| (0..n).map(|i| Step::AddTimer(TimerSpec { kind: TimerKind::DelayedExec, ticks: ticks + i % 5, work: vec![] })).collect()),
    ];
    (t_spawn, started, kids, any::<bool>(), 1usize..=3)
        .prop_flat_map(move |(spawn, started, kids, bystander, n)| {
            (Just(spawn), Just(started), Just(kids), Just(bystander), vec(vec(op.clone(), 2..=max_ops), n..=n), vec(vec(grant_kind(1), 1..=2), n..=n), schedule(if big { 64 } else { 32 }))
        })
        .prop_map(|(spawn, started, kids, bystander, clients, per, schedule)| {
            let owning = spawn.owning();
            let mut actors = one_actor(spawn, Behavior { started, ..Default::default() });
            for (under, outside) in kids {
                actors.push(ActorSpec { kind: 0, spawn: SpawnSpec::Spawn, parent: Some(ChildOf { parent: 0, under, outside, also_under: None }), beh: Behavior::default(), peer: None });
            }
            let mut grants = vec![];
            if owning {
                grants.push(Grant { client: 0, actor: 0, kind: HKind::Owning });
            }
            grants.push(Grant { client: 0, actor: 0, kind: HKind::Addr });
            for (c, kinds) in per.into_iter().enumerate() {
                for kind in kinds {
                    grants.push(Grant { client: c, actor: 0, kind });
                }
            }
            if bystander {
                let b = actors.len();
                actors.push(ActorSpec { kind: 0, spawn: SpawnSpec::Spawn, parent: None, beh: Behavior::default(), peer: Some(0) });
                for c in 0..clients.len() {
                    grants.push(Grant { client: c, actor: b, kind: HKind::Addr });
                    grants.push(Grant { client: c, actor: b, kind: HKind::Caller });
                }
            }
            let mut c = Case { family: Family::C06, actors, default_beh: vec![], grants, clients, faults: vec![], schedule, settle: 0 };
            sanitize(&mut c);
            finalize(c)
        })
        .boxed()
}

pub fn strategy(family: Family, big: bool) -> BoxedStrategy<Case> {
    match family {
        Family::C01 => c01(big),
        Family::C02 => c02(big),
        Family::C03 => c03(big),
        Family::C04 => c04(big),
        Family::C05 => c05(big),
        Family::C06 => c06(big),
        Family::C07 => c07(big),
        Family::C08 => c08(big),
        Family::C09 => c09(big),
        Family::C10 => c10(big),
        Family::C11 => c11(big),
        Family::C12 => c12(big),
        Family::C13 => c13(big),
        Family::C14 => c14(big),
        Family::C15 => c15(big),
        Family::C16 => c16(big),
        Family::C17 => c17(big),
    }
}
