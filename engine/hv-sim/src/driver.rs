//! Worker / parent / replay drivers around proptest's `TestRunner`.
use std::{
    collections::{BTreeMap, BTreeSet},
    hash::{Hash, Hasher},
    path::{Path, PathBuf},
    sync::atomic::{AtomicU64, Ordering},
    time::Instant,
};

use proptest::{
    strategy::Strategy as _,
    test_runner::{Config, RngAlgorithm, TestCaseError, TestError, TestRng, TestRunner},
};
use serde::{Deserialize, Serialize};
use serde_json::json;

use crate::{
    analysis::View,
    interp::{RunOutput, run_case},
    model::*,
    oracle::{self, Verdict, Violation},
};

// ---------------------------------------------------------------------------------------------
// running one case on a fresh thread

static ORDINAL: AtomicU64 = AtomicU64::new(0);

/// Forces the initialisation of the `futures::select!` PRNG of the current thread, so that the
/// n-th case thread of a process always gets the n-th seed.
fn touch_select_rng() {
    futures::executor::block_on(async {
        futures::select! {
            _ = futures::future::ready(()) => {},
            _ = futures::future::ready(()) => {},
        }
    });
}

pub fn burn_ordinals(upto: u64) {
    while ORDINAL.load(Ordering::Relaxed) + 1 < upto {
        ORDINAL.fetch_add(1, Ordering::Relaxed);
        std::thread::spawn(touch_select_rng).join().ok();
    }
}

pub fn run_on_thread(case: &Case) -> Result<(RunOutput, u64), String> {
    let ordinal = ORDINAL.fetch_add(1, Ordering::Relaxed) + 1;
    let c = case.clone();
    let h = std::thread::Builder::new()
        .stack_size(16 << 20)
        .spawn(move || {
            touch_select_rng();
            run_case(&c)
        })
        .map_err(|e| format!("thread spawn: {e}"))?;
    match h.join() {
        Ok(out) => Ok((out, ordinal)),
        Err(p) => {
            let msg = p
                .downcast_ref::<String>()
                .cloned()
                .or_else(|| p.downcast_ref::<&str>().map(|s| s.to_string()))
                .unwrap_or_else(|| "<panic>".into());
            Err(format!("harness panic while running a case: {msg}"))
        }
    }
}

pub fn case_hash(c: &Case) -> u64 {
    let mut h = std::collections::hash_map::DefaultHasher::new();
    c.hash(&mut h);
    h.finish()
}

// ---------------------------------------------------------------------------------------------
// known findings

#[derive(Clone, Debug, Serialize, Deserialize)]
pub struct KnownFinding {
    pub property: String,
    pub signature: String,
    pub status: String,
    pub what: String,
    #[serde(default)]
    pub commit: Option<String>,
}

pub fn root() -> PathBuf {
    if let Some(r) = std::env::var_os("HV_ROOT") {
        return PathBuf::from(r);
    }
    // <root>/engine/target/<profile>/hv
    if let Ok(exe) = std::env::current_exe() {
        if let Some(r) = exe.ancestors().nth(4) {
            if r.join("properties.jsonl").exists() {
                return r.to_path_buf();
            }
        }
    }
    PathBuf::from("/verif")
}

pub fn load_known() -> Vec<KnownFinding> {
    let p = root().join("known_findings.json");
    match std::fs::read_to_string(&p) {
        Ok(s) => serde_json::from_str::<Vec<KnownFinding>>(&s).unwrap_or_else(|e| {
            eprintln!("cannot parse {}: {e}", p.display());
            std::process::exit(2);
        }),
        Err(_) => vec![],
    }
}

fn is_known(known: &[KnownFinding], prop: &str, sig: &str) -> bool {
    known.iter().any(|k| k.status == "open" && k.property == prop && k.signature == sig)
}

// ---------------------------------------------------------------------------------------------
// worker

#[derive(Clone, Debug, Serialize, Deserialize)]
pub struct Replay {
    pub property: String,
    pub signature: String,
    pub detail: String,
    pub ordinal: u64,
    pub seed: u64,
    pub shrunk: bool,
    pub case: Case,
    #[serde(default)]
    pub history_excerpt: Vec<String>,
}

#[derive(Clone, Debug, Default, Serialize, Deserialize)]
pub struct WorkerOut {
    pub family: String,
    pub seed: u64,
    pub evaluations: u64,
    pub nontrivial: u64,
    pub nontrivial_hashes: Vec<u64>,
    pub inconclusive: u64,
    pub classes: BTreeMap<String, u64>,
    pub excluded_known: BTreeMap<String, u64>,
    pub samples: Vec<serde_json::Value>,
    pub violation: Option<Replay>,
    pub harness_errors: Vec<String>,
    pub shrink_runs: u64,
    /// C06: base programs whose single-fault space was enumerated
    #[serde(default)]
    pub programs: u64,
}

fn sample_of(case: &Case, out: &RunOutput, vd: &Verdict) -> serde_json::Value {
    let v = View::new(case, out);
    json!({
        "case": case,
        "classes": vd.classes.iter().collect::<Vec<_>>(),
        "steps": out.flags.steps,
        "schedule_choices": out.flags.choices,
        "end_time": out.flags.end_time,
        "history": v.excerpt(60),
    })
}

pub fn seed_rng(seed: u64) -> TestRng {
    let mut bytes = [0u8; 32];
    let mut x = seed ^ 0x9E37_79B9_7F4A_7C15;
    for chunk in bytes.chunks_mut(8) {
        // splitmix64
        x = x.wrapping_add(0x9E37_79B9_7F4A_7C15);
        let mut z = x;
        z = (z ^ (z >> 30)).wrapping_mul(0xBF58_476D_1CE4_E5B9);
        z = (z ^ (z >> 27)).wrapping_mul(0x94D0_49BB_1331_11EB);
        z ^= z >> 31;
        chunk.copy_from_slice(&z.to_le_bytes());
    }
    TestRng::from_seed(RngAlgorithm::ChaCha, &bytes)
}

struct WorkerState {
    out: WorkerOut,
    hashes: BTreeSet<u64>,
    first_sig: Option<String>,
    last_fail: Option<Replay>,
    first_fail: Option<Replay>,
}

pub fn worker(family: Family, seed: u64, cases: u32, big: bool) -> WorkerOut {
    let known = load_known();
    let prop = family.id();
    let strat = crate::r#gen::strategy(family, big);
    let st = std::cell::RefCell::new(WorkerState {
        out: WorkerOut { family: prop.to_string(), seed, ..Default::default() },
        hashes: BTreeSet::new(),
        first_sig: None,
        last_fail: None,
        first_fail: None,
    });

    let mut runner = TestRunner::new_with_rng(
        Config {
            cases,
            failure_persistence: None,
            max_shrink_iters: 600,
            max_shrink_time: 0,
            max_global_rejects: 100_000,
            ..Config::default()
        },
        seed_rng(seed),
    );
    // evaluates one concrete case; returns the violation to report (if any)
    let process = |case: &Case, st: &mut WorkerState| -> Result<Option<(Violation, RunOutput)>, ()> {
        let shrinking = st.first_sig.is_some();
        let (run, ordinal) = match run_on_thread(case) {
            Ok(x) => x,
            Err(e) => {
                if st.out.harness_errors.len() < 5 {
                    st.out.harness_errors.push(format!("{e}; case={}", serde_json::to_string(case).unwrap_or_default()));
                }
                return Err(());
            }
        };
        let vd = oracle::check(case, &run);
        let out = &mut st.out;
        if shrinking {
            out.shrink_runs += 1;
        } else {
            out.evaluations += 1;
            if vd.inconclusive {
                out.inconclusive += 1;
            }
            for c in &vd.classes {
                *out.classes.entry(c.to_string()).or_default() += 1;
            }
            if vd.nontrivial {
                out.nontrivial += 1;
                if st.hashes.insert(case_hash(case)) && out.samples.len() < 3 {
                    out.samples.push(sample_of(case, &run, &vd));
                }
            }
        }
        let mut unknown: Vec<&Violation> = vec![];
        for v in &vd.violations {
            if is_known(&known, prop, &v.sig) {
                if !shrinking {
                    *out.excluded_known.entry(v.sig.clone()).or_default() += 1;
                }
            } else {
                unknown.push(v);
            }
        }
        let hit = match &st.first_sig {
            None => unknown.first().copied(),
            Some(s) => unknown.iter().copied().find(|v| &v.sig == s),
        };
        if let Some(v) = hit {
            if st.first_sig.is_none() {
                st.first_sig = Some(v.sig.clone());
            }
            let view = View::new(case, &run);
            let rep = Replay {
                property: prop.to_string(),
                signature: v.sig.clone(),
                detail: v.detail.clone(),
                ordinal,
                seed,
                shrunk: shrinking,
                case: case.clone(),
                history_excerpt: view.excerpt(200),
            };
            if st.first_fail.is_none() {
                st.first_fail = Some(rep.clone());
            }
            st.last_fail = Some(rep);
            return Ok(Some((v.clone(), run)));
        }
        Ok(None)
    };
    let result = runner.run(&strat, |case| {
        let mut guard = st.borrow_mut();
        let st = &mut *guard;
        if family == Family::C06 && case.faults.is_empty() {
            // fault enumeration: the fault-free run gives the positions, then every single fault
            let Ok((base, _)) = run_on_thread(&case) else { return Ok(()) };
            let variants = crate::faults::enumerate(&case, &base, big);
            if st.first_sig.is_none() {
                st.out.programs += 1;
            }
            match process(&case, st) {
                Ok(Some((v, _))) => return Err(TestCaseError::fail(v.sig)),
                _ => {}
            }
            for vc in &variants {
                match process(vc, st) {
                    Ok(Some((v, _))) => return Err(TestCaseError::fail(v.sig)),
                    _ => {}
                }
            }
            return Ok(());
        }
        match process(&case, st) {
            Ok(Some((v, _))) => Err(TestCaseError::fail(v.sig)),
            _ => Ok(()),
        }
    });
    let WorkerState { mut out, hashes, last_fail, first_fail, .. } = st.into_inner();
    match result {
        Ok(()) => {}
        Err(TestError::Fail(_, minimal)) => {
            let _ = minimal;
            let mut rep = last_fail.or(first_fail.clone());
            // structural minimisation on top of proptest's shrinking
            if let Some(r) = rep.as_mut() {
                let sig = r.signature.clone();
                let mut best: Option<Replay> = None;
                let mut budget = crate::minimize::Budget { runs: 1500 };
                let mut fails = |c: &Case| -> bool {
                    out.shrink_runs += 1;
                    let Ok((run, ordinal)) = run_on_thread(c) else { return false };
                    let vd = oracle::check(c, &run);
                    match vd.violations.iter().find(|v| v.sig == sig) {
                        Some(v) => {
                            let view = View::new(c, &run);
                            best = Some(Replay {
                                property: prop.to_string(),
                                signature: sig.clone(),
                                detail: v.detail.clone(),
                                ordinal,
                                seed,
                                shrunk: true,
                                case: c.clone(),
                                history_excerpt: view.excerpt(200),
                            });
                            true
                        }
                        None => false,
                    }
                };
                let _ = crate::minimize::minimize(r.case.clone(), &mut budget, &mut fails);
                if let Some(b) = best {
                    *r = b;
                }
            }
            out.violation = rep.or(first_fail);
        }
        Err(TestError::Abort(r)) => out.harness_errors.push(format!("proptest aborted: {r}")),
    }
    out.nontrivial_hashes = hashes.into_iter().collect();
    out
}

// ---------------------------------------------------------------------------------------------
// replay

pub enum ReplayResult {
    Reproduced(Violation),
    NotReproduced,
    HarnessError(String),
}

pub fn replay(rep: &Replay, attempts: u32) -> ReplayResult {
    let known = load_known();
    burn_ordinals(rep.ordinal);
    for _ in 0..attempts.max(1) {
        let (run, _) = match run_on_thread(&rep.case) {
            Ok(x) => x,
            Err(e) => return ReplayResult::HarnessError(e),
        };
        let vd = oracle::check(&rep.case, &run);
        let unknown: Vec<&Violation> =
            vd.violations.iter().filter(|v| !is_known(&known, &rep.property, &v.sig)).collect();
        if let Some(v) = unknown.iter().find(|v| v.sig == rep.signature).or(unknown.first()) {
            return ReplayResult::Reproduced((*v).clone());
        }
    }
    ReplayResult::NotReproduced
}

// ---------------------------------------------------------------------------------------------
// parent

pub struct Tier {
    pub name: &'static str,
    pub workers: u32,
    pub cases_per_worker: u32,
    pub big: bool,
}

pub fn tier_for(family: Family, tier: &str) -> Tier {
    let thorough = tier == "thorough";
    let scale = |q: u32, t: u32| if thorough { t } else { q };
    let cases = match family {
        Family::C06 => scale(250, 6_000),
        Family::C08 | Family::C09 | Family::C14 | Family::C16 => scale(6_000, 60_000),
        _ => scale(8_000, 100_000),
    };
    Tier { name: if thorough { "thorough" } else { "quick" }, workers: 16, cases_per_worker: cases, big: thorough }
}

fn mix(seed: u64, w: u64) -> u64 {
    let mut z = seed.wrapping_mul(0x9E37_79B9_7F4A_7C15) ^ w.wrapping_mul(0xD1B5_4A32_D192_ED03);
    z = (z ^ (z >> 32)).wrapping_mul(0xBF58_476D_1CE4_E5B9);
    z ^ (z >> 29)
}

pub fn rule_text(family: Family) -> &'static str {
    match family {
        Family::C01 => "proptest-generated client programs (1-4 clients, send/call/ping through all six handle kinds, conversions, timers as extra traffic, mailbox unbounded or bounded 0..3) x schedule bytes, executed on the deterministic simulation executor; non-trivial = the executed history contains at least one pair (m1,m2) with submission(m1) completed before submission(m2) began, both handled, that differ in client or in submission path (waiting vs. forcing); distinct = hash of the generated case (program + schedule)",
        Family::C02 => "C01 programs plus concurrent calls, restart requests and one termination cause (client stop/halt/drop, started Err/panic - also of the second incarnation -, k-th handler panic, stopped panic, fail_on_timeout, cancellation of the actor task before its j-th poll) at a generated position; non-trivial = two calls on the same actor in flight at the same time, or an operation pending at the moment the actor task ended; distinct = hash of the generated case",
        Family::C03 => "client programs over plain and stream-attached actors x restart strategy {default, recreate, non-restartable} x mailbox kind, with stop through every entry point, ctx.stop/ctx.restart in handlers, restarts, last-handle drops, stream feed/end, started errors; oracle = per-actor acceptor automaton over callback events; non-trivial = a processed restart, or a termination with a payload (accepted send or created tick) still queued; distinct = hash of the generated case",
        Family::C04 => "C01 programs in which 2-4 clients race stop requests (stop, halt, try_stop, try_halt, consume, ctx.stop in a handler) with submissions (also calls whose future is dropped after 1-4 polls: accepted, so handled in FIFO order and drained), plus awaiters (await of a clone, halt, join) before and after termination; non-trivial = a message accepted before the first stop request and a message submitted after an accepted stop returned in the same run, or an awaiter created after termination; distinct = hash of the generated case",
        Family::C05 => "handle-manipulation programs (clone, downgrade, upgrade, all conversions through the Addr methods and the From impls, weak handles obtained from the actor's own context, give to another client, drop) interleaved with submissions, on plain, registered and stream-attached actors, with timers (incl. a delayed_exec task that keeps running) and broker subscriptions active; the harness keeps a model count of strong handles; non-trivial = the last strong handle was dropped by the clients (before teardown) with a message still queued or a timer/subscription active, or a weak upgrade was attempted after it; distinct = hash of the generated case",
        Family::C06 => "base programs (target T - plain, registered service or stream-attached - with timers, 0-3 children; bystander B that calls T; 1-3 clients) for each of which the single-fault space is enumerated exhaustively from the positions of its fault-free run: started Err / started panic (also of a later incarnation) / k-th handler invocation panics (every k) / stopped panics / finished panics (stream-attached T) / fail_on_timeout per handler duration / cancellation of T's task before its j-th poll (every j); evaluations counts fault runs; non-trivial = the fault took T down while an operation on T was pending or while T held children or timers; distinct = hash of (program, fault)",
        Family::C07 => "client programs with restart requests through Addr::restart and Context::restart at any position, strategy {default, recreate, non-restartable}, timers registered in started and in handlers, optional started error in incarnation >= 1; non-trivial = a processed restart with an accepted message before the request, or with a timer registered before it; distinct = hash of the generated case",
        Family::C08 => "1-4 client tasks issuing from_registry, setup, register, replace, unregister, try_from_registry, already_running, stop and self-stopping messages on 2 service types (optionally a pre-registered instance; optionally a default instance that looks up the other service in started); oracle = Wing-Gong linearizability search against a sequential registry model with three-valued liveness, preceded by specific sequential checks; non-trivial = two registry operations on the same type overlap in time, or a lookup follows a termination; distinct = hash of the generated case",
        Family::C09 => "1-3 publishers (Broker::publish, Addr<Broker>::publish, Context::publish inside handlers) and 1-4 subscriber actors (some bounded, some restarted under the default or recreate-from-default strategy) over 2 topics with subscribe in started, subscribe/unsubscribe by clients through four conversion routes to the weak sender, broker pings as fences, stops, restarts and drops; per (publication, actor) the oracle derives MUST / MUST-NOT / MAY from completed-before relations; non-trivial = two subscribers with two deliveries each, at least one MUST delivery, plus an unsubscribe, a terminated subscriber or a second publisher; distinct = hash of the generated case",
        Family::C10 => "0-4 timers of kinds interval / interval_with / delayed_send / delayed_exec (period/delay 1..50 virtual ticks) registered in started or in handlers, both mailbox kinds, mostly sleeping clients, restart requests to non-restartable actors (ignored), non-fatal handler timeouts that abandon a tick handler, termination by stop/halt/drop or failure at any virtual time; non-trivial = some timer fired at least twice and the actor terminated with a timer still pending; distinct = hash of the generated case",
        Family::C11 => "timeout t in 1..100 ticks (sometimes 1000..2500) or none, fail_on_timeout in {false,true} (also without any timeout), both mailbox kinds, messages whose handler duration is t-1, t+1, << t, >> t (never = t; up to 2600 ticks when no timeout is configured), split into 1-3 sleeps, with further messages queued behind; non-trivial = a completed and an abandoned invocation in the same run with a message handled after them; distinct = hash of the generated case",
        Family::C12 => "bounded(0..4) (and some unbounded) mailboxes, 1-4 clients sending through Addr, Sender, WeakSender mixed with forcing traffic (call, ping, interval, stop), handler durations 0..6 ticks, sometimes one message of 3000-9000 ticks (seconds of congestion) or a flood of 90 sends; oracle = at every send-return stamp the number of returned-but-not-taken-out messages is <= n; non-trivial = at least one send was really blocked (pending polls > 0) and later returned Ok; distinct = hash of the generated case",
        Family::C13 => "stream-attached actors (spawn_on_stream / builder, both mailbox kinds) on a harness-scripted stream (fed in bursts by client ops, ended or never-ending) with messages (also calls abandoned after their first poll), stop, drops; both outcomes of the select! tie-break are accepted; non-trivial = an item and a message handled in the same run and a termination while the stream was still pending; distinct = hash of the generated case",
        Family::C14 => "histories that vary who awaits the address and when relative to the termination (never / before / after), termination cause (stop, ctx.stop, handler panic, started error, cancellation), handle queried (Addr, clones, WeakAddr), followed by sequential registry reactions (from_registry, register, try_from_registry); also the broker behind ctx.subscribe is stopped (awaited, or only watched through stopped()) and the actor subscribes again from a handler or from started after a restart; non-trivial = a liveness query or a registry reaction after a termination that nobody awaited, or a subscription after the broker's termination; distinct = hash of the generated case",
        Family::C15 => "grants and conversion/drop programs (Addr methods and From impls alternately, weak handles exported from the actor's own context) leaving any non-empty combination of strong kinds {Addr, OwningAddr, Sender, Caller} alive (a second actor checks identity), default and recreate-from-default strategies, then ctx.stop/ctx.restart messages, client stops and awaits, interval timers judged per incarnation, upgrades of all weak kinds (also after termination); non-trivial = a context operation, a weak upgrade or a due tick was checked while no Addr/OwningAddr existed; distinct = hash of the generated case",
        Family::C16 => "actor trees up to depth 3 / 6 nodes built in started (add_child / register_child under two message types, some children also held outside, some with interval timers of their own), broadcasts through send_to_children followed by direct messages to children, root termination by stop, drop, ctx.stop, started Err/panic, handler panic, stopped panic, cancellation; non-trivial = depth >= 2 with a broadcast and a non-graceful parent end; distinct = hash of the generated case",
        Family::C17 => "owning spawns (spawn_owning, builder, default, on stream) with join, repeated joins, consume, consume_sync, detach, to_addr mixed with submissions from other clients and every termination cause incl. faults; non-trivial = a join racing with an in-flight submission of another client, or a second join; distinct = hash of the generated case",
    }
}

pub fn level_for(family: Family) -> &'static str {
    match family {
        Family::C06 => "fault_enumeration",
        _ => "exploration",
    }
}

pub fn run_parent(family: Family, tier_name: &str) -> i32 {
    let t0 = Instant::now();
    let seed: u64 = std::env::var("VERIF_SEED").ok().and_then(|s| s.parse::<i64>().ok()).map(|x| x as u64).unwrap_or(1);
    let tier = tier_for(family, tier_name);
    let prop = family.id();
    let root = root();
    let exe = std::env::current_exe().expect("current_exe");
    let known = load_known();
    let out_dir = root.join("out").join("work").join(format!("{prop}-{}", std::process::id()));
    std::fs::create_dir_all(&out_dir).ok();

    // ---- replay tier: committed regression cases first
    let mut violations: Vec<(String, PathBuf)> = vec![];
    let mut replayed = 0;
    let reg_dir = root.join("replays").join(prop);
    if let Ok(rd) = std::fs::read_dir(&reg_dir) {
        let mut files: Vec<PathBuf> = rd.filter_map(|e| e.ok()).map(|e| e.path()).filter(|p| p.extension().is_some_and(|x| x == "json")).collect();
        files.sort();
        for f in files {
            let Ok(s) = std::fs::read_to_string(&f) else { continue };
            let Ok(rep) = serde_json::from_str::<Replay>(&s) else {
                eprintln!("cannot parse replay {}", f.display());
                return 2;
            };
            replayed += 1;
            // regression replays run in a child process so that thread ordinals start fresh
            let st = std::process::Command::new(&exe).arg("replay").arg(&f).arg("--quiet").status();
            match st.map(|s| s.code()) {
                Ok(Some(0)) => {}
                Ok(Some(1)) => violations.push((rep.signature.clone(), f.clone())),
                other => {
                    eprintln!("replay of {} failed to run: {other:?}", f.display());
                    return 2;
                }
            }
        }
    }

    // ---- generated tier
    let mut children = vec![];
    for w in 0..tier.workers {
        let out_file = out_dir.join(format!("w{w}.json"));
        let child = std::process::Command::new(&exe)
            .arg("worker")
            .arg(prop)
            .arg(mix(seed, w as u64).to_string())
            .arg(tier.cases_per_worker.to_string())
            .arg(if tier.big { "1" } else { "0" })
            .arg(&out_file)
            .stdout(std::process::Stdio::null())
            .stderr(std::process::Stdio::null())
            .spawn();
        match child {
            Ok(c) => children.push((c, out_file)),
            Err(e) => {
                eprintln!("cannot start worker: {e}");
                return 2;
            }
        }
    }
    let mut merged = WorkerOut { family: prop.into(), seed, ..Default::default() };
    let mut hashes: BTreeSet<u64> = BTreeSet::new();
    let mut harness_failed = false;
    let mut found: Vec<Replay> = vec![];
    for (mut c, f) in children {
        let st = c.wait();
        let ok = matches!(st, Ok(s) if s.success());
        let parsed = std::fs::read_to_string(&f).ok().and_then(|s| serde_json::from_str::<WorkerOut>(&s).ok());
        let Some(wo) = parsed.filter(|_| ok) else {
            eprintln!("worker output missing or unreadable: {} (status {st:?})", f.display());
            harness_failed = true;
            continue;
        };
        merged.evaluations += wo.evaluations;
        merged.nontrivial += wo.nontrivial;
        merged.inconclusive += wo.inconclusive;
        merged.shrink_runs += wo.shrink_runs;
        merged.programs += wo.programs;
        for (k, v) in wo.classes {
            *merged.classes.entry(k).or_default() += v;
        }
        for (k, v) in wo.excluded_known {
            *merged.excluded_known.entry(k).or_default() += v;
        }
        hashes.extend(wo.nontrivial_hashes);
        if merged.samples.len() < 4 {
            merged.samples.extend(wo.samples.into_iter().take(1));
        }
        merged.harness_errors.extend(wo.harness_errors);
        if let Some(v) = wo.violation {
            found.push(v);
        }
    }
    std::fs::remove_dir_all(&out_dir).ok();

    // ---- report
    let rep_dir = root.join("out").join("replays").join(prop);
    let mut seen_sigs: BTreeSet<String> = BTreeSet::new();
    for rep in &found {
        if !seen_sigs.insert(rep.signature.clone()) {
            continue;
        }
        std::fs::create_dir_all(&rep_dir).ok();
        let name = format!("{}-{:016x}.json", sanitize(&rep.signature), case_hash(&rep.case));
        let path = rep_dir.join(name);
        std::fs::write(&path, serde_json::to_string_pretty(rep).unwrap()).ok();
        violations.push((rep.signature.clone(), path));
    }
    for k in known.iter().filter(|k| k.property == prop && k.status == "open") {
        let n = merged.excluded_known.get(&k.signature).copied().unwrap_or(0);
        println!("KNOWN-FINDING: property={prop} {} [signature {} seen {n}x in this run]", k.what, k.signature);
    }
    for (sig, path) in &violations {
        println!("VIOLATION property={prop} replay={} signature={sig}", path.display());
    }
    if !merged.harness_errors.is_empty() {
        for e in merged.harness_errors.iter().take(3) {
            eprintln!("HARNESS-ERROR: {e}");
        }
        harness_failed = true;
    }
    let wall = t0.elapsed().as_secs_f64();
    let evidence = json!({
        "property_id": prop,
        "tier": tier.name,
        "seed": seed as i64,
        "level": level_for(family),
        "coverage": {
            "evaluations": merged.evaluations,
            "distinct_nontrivial": hashes.len(),
            "nontrivial_total": merged.nontrivial,
            "rule": rule_text(family),
            "samples": merged.samples,
            "class_histogram": merged.classes,
            "inconclusive_budget_hits": merged.inconclusive,
            "excluded_known": merged.excluded_known,
            "regression_replays": replayed,
            "shrink_executions": merged.shrink_runs,
            "programs_with_exhaustive_single_fault_enumeration": merged.programs,
            "workers": tier.workers,
            "cases_per_worker": tier.cases_per_worker,
            "exhaustive": false,
        },
        "assumptions": [
            "interleavings are explored at task-poll granularity on a single-threaded executor, plus the hook's preemption points (after each registry lock acquisition; a join handle that is not ready once); futures-channel, Shared and async-lock are trusted to be linearizable",
            "virtual time: the CPU is infinitely fast, time advances only when no task is runnable",
            "absence is not established: the search is a sample of programs x schedules"
        ],
        "wall_s": wall,
        "violations": violations.len(),
    });
    let ev_dir = root.join("evidence");
    std::fs::create_dir_all(&ev_dir).ok();
    if let Err(e) = std::fs::write(ev_dir.join(format!("{prop}.json")), serde_json::to_string_pretty(&evidence).unwrap()) {
        eprintln!("cannot write evidence: {e}");
        return 2;
    }
    println!(
        "{prop} {}: {} cases, {} distinct non-trivial, {} known-finding hits, {} violations, {:.1}s",
        tier.name,
        merged.evaluations,
        hashes.len(),
        merged.excluded_known.values().sum::<u64>(),
        violations.len(),
        wall
    );
    if !violations.is_empty() {
        1
    } else if harness_failed {
        2
    } else {
        0
    }
}

fn sanitize(s: &str) -> String {
    s.chars().map(|c| if c.is_ascii_alphanumeric() || c == '-' || c == '_' { c } else { '_' }).collect()
}

pub fn read_replay(p: &Path) -> Result<Replay, String> {
    let s = std::fs::read_to_string(p).map_err(|e| format!("{}: {e}", p.display()))?;
    serde_json::from_str(&s).map_err(|e| format!("{}: {e}", p.display()))
}

/// debugging aid: generate and run n cases, print class histogram
pub fn gen_stats(family: Family, n: u32, big: bool, seed: u64, show: usize) {
    let strat = crate::r#gen::strategy(family, big);
    let mut runner = TestRunner::new_with_rng(Config { cases: n, failure_persistence: None, ..Config::default() }, seed_rng(seed));
    let mut classes: BTreeMap<String, u64> = BTreeMap::new();
    let mut sigs: BTreeMap<String, (u64, String)> = BTreeMap::new();
    let mut nt = 0;
    let mut shown = 0;
    for _ in 0..n {
        let case = strat.new_tree(&mut runner).unwrap();
        use proptest::strategy::ValueTree;
        let case = case.current();
        let (run, _) = run_on_thread(&case).unwrap();
        let mut variants = vec![];
        if family == Family::C06 {
            variants = crate::faults::enumerate(&case, &run, big);
        }
        for vc in &variants {
            let (r2, _) = run_on_thread(vc).unwrap();
            let vd2 = oracle::check(vc, &r2);
            for c in &vd2.classes {
                *classes.entry(c.to_string()).or_default() += 1;
            }
            if vd2.nontrivial {
                nt += 1;
            }
            for v in &vd2.violations {
                let e = sigs.entry(v.sig.clone()).or_insert((0, format!("{} CASE {}", v.detail, serde_json::to_string(vc).unwrap())));
                e.0 += 1;
            }
        }
        let vd = oracle::check(&case, &run);
        for c in &vd.classes {
            *classes.entry(c.to_string()).or_default() += 1;
        }
        if vd.nontrivial {
            nt += 1;
        }
        for v in &vd.violations {
            let e = sigs.entry(v.sig.clone()).or_insert((0, v.detail.clone()));
            e.0 += 1;
        }
        let want_class = std::env::var("HV_SHOW_CLASS").ok();
        let class_hit = want_class.as_deref().is_some_and(|w| vd.classes.contains(w));
        if shown < show && (!vd.violations.is_empty() || show > 1000 || class_hit) {
            shown += 1;
            println!("---- case {}", serde_json::to_string(&case).unwrap());
            for l in View::new(&case, &run).excerpt(400) {
                println!("   {l}");
            }
            println!("   flags {:?}", run.flags);
            for v in &vd.violations {
                println!("   VIOL {} :: {}", v.sig, v.detail);
            }
        }
    }
    println!("cases {n} nontrivial {nt}");
    for (k, v) in classes {
        println!("  class {k:32} {v:7} {:5.1}%", 100.0 * v as f64 / n as f64);
    }
    for (k, (n, d)) in sigs {
        println!("  SIG {k} x{n} e.g. {d}");
    }
}
