//! The history of one executed case: every event carries a global sequence number (logical
//! clock) and the virtual time.
use serde::Serialize;

use crate::{
    model::*,
    sim::{TaskEnd, TaskId, TaskTag},
};

#[derive(Clone, Copy, Debug, PartialEq, Eq, Hash, Serialize)]
pub enum OpWhat {
    Send,
    /// a send whose future the client dropped before it resolved
    SendAbandoned,
    Call,
    /// a call whose future the client dropped before it resolved
    CallAbandoned,
    Ping,
    Stop,
    Halt,
    TryStop,
    TryHalt,
    Restart,
    AwaitClone,
    Join,
    /// join future created, polled once and kept alive unresolved
    JoinStash,
    /// join future created and dropped without a poll
    JoinDiscard,
    Consume,
    ConsumeSync,
    Detach,
    Clone,
    Downgrade,
    Upgrade,
    ToSender,
    ToCaller,
    ToWeakSender,
    ToWeakCaller,
    ToAddr,
    Drop,
    Give,
    QueryStopped,
    QueryRunning,
    Reg(RegOp, u8),
    Publish(u8),
    Subscribe(u8),
    Unsubscribe(u8),
    BrokerPing(u8),
    /// result Bool(true): the broker instance was seen terminated when the op ended
    BrokerHalt(u8),
    Feed,
    EndStream,
    Sleep,
    Yield,
}

#[derive(Clone, Debug, PartialEq, Eq, Serialize)]
pub enum OpRes {
    /// Ok(()) / plain success
    Ok,
    /// call returned Ok(reply)
    Reply(Reply),
    /// Err(..) with the Debug rendering of the error
    Err(String),
    Bool(bool),
    /// upgrade / try_from_registry: Some or None
    Opt(bool),
    /// join: Some(final value) or None
    Joined(Option<FinalValue>),
    /// registry operations, see `RegRes`
    Reg(RegRes),
    /// a new handle was created
    Made(HKind),
    /// the client dropped the operation's future before it resolved
    Abandoned,
}

impl OpRes {
    pub fn is_ok(&self) -> bool {
        !matches!(self, OpRes::Err(_) | OpRes::Joined(None) | OpRes::Opt(false) | OpRes::Abandoned)
    }
    pub fn is_err(&self) -> bool {
        matches!(self, OpRes::Err(_))
    }
}

/// identity of an instance as observed through a `call`
#[derive(Clone, Debug, PartialEq, Eq, Serialize)]
pub enum Ident {
    /// the call was answered by this actor/value
    Live { actor: ActorId, value: u32 },
    /// the identifying call failed (instance is terminated)
    Dead { actor: Option<ActorId> },
}

#[derive(Clone, Debug, PartialEq, Eq, Serialize)]
pub enum RegRes {
    /// from_registry / setup
    Got(Ident),
    /// register: Ok((self, replaced))
    Registered { me: ActorId, replaced: Option<ActorId> },
    /// register: Err(ServiceStillRunning) (or another error text)
    RegisterErr { me: ActorId, err: String },
    /// replace / unregister: previous entry
    Prev { me: Option<ActorId>, prev: Option<ActorId> },
    TryGot(Option<Ident>),
    Running(Option<bool>),
}

/// the actor value handed back by join / consume
#[derive(Clone, Debug, PartialEq, Eq, Serialize)]
pub struct FinalValue {
    pub actor: ActorId,
    pub value: u32,
    pub began: Vec<MsgRef>,
    pub done: Vec<MsgRef>,
    pub stopped_calls: u32,
}

#[derive(Clone, Copy, Debug, PartialEq, Eq, Hash, Serialize)]
pub enum Cb {
    Started,
    Stopped,
    Finished,
}

#[derive(Clone, Copy, Debug, PartialEq, Eq, Hash, Serialize)]
pub enum CtxOpKind {
    Stop,
    Restart,
}

#[derive(Clone, Copy, Debug, PartialEq, Eq, Hash, Serialize)]
pub enum Origin {
    /// spawned by the harness set-up from `case.actors[slot]`
    Setup,
    /// created through `Default` (on-demand service, spawn_default)
    Default,
    /// spawned by a client `Reg(Register|Replace)` op
    RegOp,
    /// spawned by its parent's `started`
    Child,
    /// a tentative id that turned out to be a recreate-from-default value (no actor of its own)
    Phantom,
}

#[derive(Clone, Copy, Debug, PartialEq, Eq, Hash, PartialOrd, Ord, Serialize)]
pub enum Phase {
    Run,
    Settle,
    Teardown,
    Drain,
    End,
}

#[derive(Clone, Debug, PartialEq, Eq, Serialize)]
pub enum EvKind {
    Phase(Phase),
    ActorNew { actor: ActorId, kind: u8, origin: Origin },
    OpBegin { client: usize, op: usize, what: OpWhat, actor: Option<ActorId>, via: Option<HKind>, msg: Option<u32> },
    OpEnd { client: usize, op: usize, res: OpRes, polls: u32 },
    OpSkip { client: usize, op: usize },
    /// the operation's future returned Pending for the first time
    OpFirstPending { client: usize, op: usize },
    Cb { actor: ActorId, value: u32, inc: u32, cb: Cb, enter: bool },
    HEnter { actor: ActorId, value: u32, inc: u32, inv: u32, msg: MsgRef },
    HStep { actor: ActorId, inv: u32, idx: u32 },
    HExit { actor: ActorId, inv: u32 },
    CtxOp { actor: ActorId, inv: Option<u32>, op: CtxOpKind, ok: bool },
    /// result of `Step::CallPeer` inside a handler
    PeerCall { actor: ActorId, inv: Option<u32>, peer: ActorId, ok: bool },
    /// result of `Step::Lookup` inside a callback
    Lookup { actor: ActorId, kind: u8, got: Ident },
    TimerReg { actor: ActorId, timer: usize, kind: TimerKind, ticks: u32, inc: u32 },
    TickCreated { actor: ActorId, timer: usize, n: u32 },
    DelayedRan { actor: ActorId, timer: usize },
    ChildAdded { parent: ActorId, child: ActorId, reg: ChildReg, outside: bool },
    Spawn { task: TaskId, tag: TaskTag },
    TaskEnd { task: TaskId, tag: TaskTag, end: TaskEnd },
    /// a handle came into existence in the harness (client table, grant, peer field)
    HandleNew { client: Option<usize>, actor: ActorId, kind: HKind, id: u32 },
    HandleDrop { client: Option<usize>, actor: ActorId, kind: HKind, id: u32 },
    /// handle moved between clients
    HandleMove { from: usize, to: usize, id: u32 },
    StreamYield { stream: usize, item: u32 },
    StreamEnded { stream: usize },
    Note(String),
}

#[derive(Clone, Debug, Serialize)]
pub struct Ev {
    pub stamp: u64,
    pub time: u64,
    pub task: Option<TaskId>,
    pub kind: EvKind,
}

pub type History = Vec<Ev>;
