#!/bin/sh
# builds the verification engines from files on disk only (offline)
set -e
ROOT="$(cd "$(dirname "$0")" && pwd)"
export CARGO_NET_OFFLINE=true
mkdir -p "$ROOT/out"
cd "$ROOT/engine" && cargo build --release --offline 2>&1 | tail -2
cd "$ROOT/engine-rt" && for f in rt_tokio rt_async rt_smol; do cargo build --release --offline --features $f --target-dir target/$f 2>&1 | tail -1; done
# warm the type-check engine's target dir (dependencies of the generated crates)
cd "$ROOT" && python3 engine-typeck/typeck.py warm >/dev/null 2>&1 || true
echo "setup done"
