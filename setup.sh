#!/bin/sh
# builds the verification engines from files on disk only (offline)
set -e
cd "$(dirname "$0")/engine"
export CARGO_NET_OFFLINE=true
cargo build --release --offline 2>&1 | tail -3
