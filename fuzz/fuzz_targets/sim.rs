//! Coverage-guided second generator for the E1 families: libFuzzer's bytes are decoded by
//! `hv_sim::fuzzdec` (seed of a generated base program + schedule bytes + structural edits) into
//! a valid `Case` of the family chosen with HV_FUZZ_FAMILY; the same interpreter and oracle run
//! inside the target, and an unknown violation aborts (after writing the JSON replay).
#![no_main]
use std::sync::OnceLock;

use hv_sim::{driver, model::Family, oracle};
use libfuzzer_sys::fuzz_target;

struct Setup {
    family: Family,
    known: Vec<driver::KnownFinding>,
}

static SETUP: OnceLock<Setup> = OnceLock::new();

fn setup() -> &'static Setup {
    SETUP.get_or_init(|| {
        hv_sim::sim::install_panic_hook();
        let family = std::env::var("HV_FUZZ_FAMILY").ok().and_then(|s| Family::parse(&s)).unwrap_or(Family::C01);
        Setup { family, known: driver::load_known() }
    })
}

fuzz_target!(|data: &[u8]| {
    let s = setup();
    let case = hv_sim::fuzzdec::decode(s.family, true, data);
    let Some(case) = case else { return };
    let Ok((run, ordinal)) = driver::run_on_thread(&case) else { return };
    let vd = oracle::check(&case, &run);
    for v in &vd.violations {
        let prop = s.family.id();
        if s.known.iter().any(|k| k.status == "open" && k.property == prop && k.signature == v.sig) {
            continue;
        }
        let rep = driver::Replay {
            property: prop.to_string(),
            signature: v.sig.clone(),
            detail: v.detail.clone(),
            ordinal,
            seed: 0,
            shrunk: false,
            case: case.clone(),
            history_excerpt: vec![],
        };
        let dir = driver::root().join("out").join("replays").join(prop);
        let _ = std::fs::create_dir_all(&dir);
        let path = dir.join(format!("fuzz-{:016x}.json", driver::case_hash(&case)));
        let _ = std::fs::write(&path, serde_json::to_string_pretty(&rep).unwrap());
        eprintln!("FUZZ-VIOLATION property={prop} replay={} signature={}", path.display(), v.sig);
        std::process::abort();
    }
});
