#!/usr/bin/env python3
"""E3 - C19: ill-typed uses of the API are rejected at compile time.

Input space: a grammar of small client functions over a fixed "world" of actor / message
types.  Every ill-typed function applies exactly one violation of one rule at one entry point,
reached through a generated conversion chain on the receiver; its twin is the same function with
the conforming type.  Oracle: a typing table predicts accept / reject; the observation is the
compiler's verdict (one `cargo check --message-format=json` per batch, errors mapped to
functions by line).  The base catalogue (rule x entry, empty chain) is enumerated exhaustively,
chains are sampled with a PRNG seeded from VERIF_SEED.
"""
import json, os, random, subprocess, sys, time, shutil, hashlib

ROOT = os.environ.get("HV_ROOT") or os.path.dirname(os.path.dirname(os.path.abspath(__file__)))
WORK = os.path.join(ROOT, "engine-typeck", "work")

WORLD = r'''
#![allow(unused, dead_code, clippy::all)]
use std::time::Duration;
use hannibal::{prelude::*, Addr, OwningAddr, Sender, Caller, WeakSender, WeakCaller, WeakAddr, Broker, RestartableActor, Context, spawner::DefaultSpawnable};

/// plain actor: not restartable, no Default
pub struct Plain;
impl Actor for Plain {}
/// restartable + Default
#[derive(Default)] pub struct Rest;
impl Actor for Rest {}
impl RestartableActor for Rest {}
/// restartable, no Default
pub struct RestNoDefault;
impl Actor for RestNoDefault {}
impl RestartableActor for RestNoDefault {}
/// Default, not restartable
#[derive(Default)] pub struct PlainDefault;
impl Actor for PlainDefault {}
/// restartable + Default stream handler
#[derive(Default)] pub struct Strm;
impl Actor for Strm {}
impl RestartableActor for Strm {}
impl StreamHandler<i32> for Strm { async fn handle(&mut self, _: &mut Context<Self>, _: i32) {} }
/// consumes a stream of `Unhandled` items - which does not make `Unhandled` one of its messages
pub struct StrmMsg;
impl Actor for StrmMsg {}
impl StreamHandler<Unhandled> for StrmMsg { async fn handle(&mut self, _: &mut Context<Self>, _: Unhandled) {} }

#[derive(Clone)] pub struct Unit1;  impl Message for Unit1 { type Response = (); }

#[derive(Clone)] pub struct Unit2;  impl Message for Unit2 { type Response = (); }
#[derive(Clone)] pub struct Resp1;  impl Message for Resp1 { type Response = u32; }
#[derive(Clone)] pub struct Unhandled;  impl Message for Unhandled { type Response = (); }
#[derive(Clone)] pub struct UnhandledResp;  impl Message for UnhandledResp { type Response = u32; }

macro_rules! handlers { ($($a:ty),*) => { $(
    impl Handler<Unit1> for $a { async fn handle(&mut self, _: &mut Context<Self>, _: Unit1) {} }
    impl Handler<Unit2> for $a { async fn handle(&mut self, _: &mut Context<Self>, _: Unit2) {} }
    impl Handler<Resp1> for $a { async fn handle(&mut self, _: &mut Context<Self>, _: Resp1) -> u32 { 0 } }
    impl Handler<()> for $a { async fn handle(&mut self, _: &mut Context<Self>, _: ()) {} }
)* } }
handlers!(Plain, Rest, RestNoDefault, PlainDefault, Strm, StrmMsg);

fn stream() -> futures::stream::Iter<std::ops::Range<i32>> { futures::stream::iter(0..3) }
const D: Duration = Duration::from_millis(1);
'''

# receiver kinds and conversion chains -----------------------------------------------------------
# each chain step maps a receiver kind to (new kind, expression template using {r})
CHAIN_STEPS = {
    "addr": [
        ("addr", "{r}.clone()"),
        ("addr", "{r}.downgrade().upgrade().unwrap()"),
        ("addr", "{r}.downgrade().clone().upgrade().unwrap()"),
        ("addr", "(&{r}).to_owned()"),
    ],
    "owning": [
        ("addr", "{r}.to_addr()"),
        ("addr", "{r}.as_addr().clone()"),
        ("addr", "{r}.as_ref().clone()"),
        ("addr", "{r}.detach()"),
    ],
    "ctx": [
        ("addr", "{r}.weak_address().unwrap().upgrade().unwrap()"),
    ],
}

def gen_chain(rng, kind, depth):
    """returns (final kind, list of step expressions)"""
    steps = []
    for _ in range(depth):
        opts = CHAIN_STEPS.get(kind)
        if not opts:
            break
        nk, tmpl = rng.choice(opts)
        steps.append(tmpl)
        kind = nk
    return kind, steps

def apply_chain(base, steps):
    r = base
    for t in steps:
        r = t.format(r=r)
    return r

# catalogue --------------------------------------------------------------------------------------
# entry: (rule, name, receiver kind, actor type param, body template with {r} receiver, {M} message)
# ill / ok give the substituted message (or actor) for the ill-typed program and its twin.
def catalogue():
    C = []
    def add(rule, name, recv, body, ill, ok, pre=""):
        C.append(dict(rule=rule, name=name, recv=recv, body=body, ill=ill, ok=ok, pre=pre))
    # R1 handler required (message nobody handles) / twins with a handled message
    for name, body, ill, ok in [
        ("addr.send",        "let _ = {r}.send({M});",                  "Unhandled", "Unit1"),
        ("addr.call",        "let _ = {r}.call({M});",                  "UnhandledResp", "Resp1"),
        ("addr.call_unit",   "let _ = {r}.call({M});",                  "Unhandled", "Unit1"),
        ("addr.sender",      "let _ = {r}.sender::<{M}>();",            "Unhandled", "Unit1"),
        ("addr.caller",      "let _ = {r}.caller::<{M}>();",            "UnhandledResp", "Resp1"),
        ("addr.weak_sender", "let _ = {r}.weak_sender::<{M}>();",       "Unhandled", "Unit1"),
        ("addr.weak_caller", "let _ = {r}.weak_caller::<{M}>();",       "UnhandledResp", "Resp1"),
        ("Sender::from",     "let _ = Sender::<{M}>::from({r});",       "Unhandled", "Unit1"),
        ("Sender::from_ref", "let _ = Sender::<{M}>::from(&{r});",      "Unhandled", "Unit1"),
        ("Caller::from",     "let _ = Caller::<{M}>::from({r});",       "UnhandledResp", "Resp1"),
        ("WeakSender::from", "let _ = WeakSender::<{M}>::from({r});",   "Unhandled", "Unit1"),
        ("WeakCaller::from", "let _ = WeakCaller::<{M}>::from({r});",   "UnhandledResp", "Resp1"),
        ("into_sender",      "let _s: Sender<{M}> = {r}.into();",       "Unhandled", "Unit1"),
    ]:
        add("handler_required", name, "addr", body, ill, ok)
    # ... and a StreamHandler for an item type is no Handler for it (same entries on an actor that consumes
    # a stream of `Unhandled`)
    for e in [e for e in C if e["rule"] == "handler_required" and e["recv"] == "addr" and e["ill"] == "Unhandled"]:
        C.append(dict(e, name=e["name"] + "/stream-item", actor="StrmMsg"))
    for name, body, ill, ok in [
        ("owning.send", "let _ = {r}.send({M});", "Unhandled", "Unit1"),
        ("owning.call", "let _ = {r}.call({M});", "UnhandledResp", "Resp1"),
    ]:
        add("handler_required", name, "owning", body, ill, ok)
    for name, body, ill, ok in [
        ("ctx.interval",       "{r}.interval({M}, D);",                   "Unhandled", "Unit1"),
        ("ctx.interval_with",  "{r}.interval_with(|| {M}, D);",           "Unhandled", "Unit1"),
        ("ctx.delayed_send",   "{r}.delayed_send(|| {M}, D);",            "Unhandled", "Unit1"),
        ("ctx.weak_sender",    "let _ = {r}.weak_sender::<{M}>();",       "Unhandled", "Unit1"),
        ("ctx.weak_caller",    "let _ = {r}.weak_caller::<{M}, _>();",      "UnhandledResp", "Resp1"),
        ("ctx.subscribe",      "let _ = {r}.subscribe::<{M}>();",         "Unhandled", "Unit1"),
        ("ctx.publish",        "let _ = {r}.publish({M});",               "Unhandled", "Unit1"),
        ("ctx.register_child", "{r}.register_child::<{M}>(child.clone());", "Unhandled", "Unit1"),
        ("ctx.add_child",      "{r}.add_child({M});",                     "nounit_child.clone()", "child.clone()"),
    ]:
        add("handler_required", name, "ctx", body, ill, ok)
    # R2 fire-and-forget paths only accept unit responses
    for name, body in [
        ("addr.send",        "let _ = {r}.send({M});"),
        ("addr.sender",      "let _ = {r}.sender::<{M}>();"),
        ("addr.weak_sender", "let _ = {r}.weak_sender::<{M}>();"),
        ("Sender::from",     "let _ = Sender::<{M}>::from({r});"),
        ("WeakSender::from", "let _ = WeakSender::<{M}>::from({r});"),
        ("into_sender",      "let _s: Sender<{M}> = {r}.into();"),
    ]:
        add("unit_response", name, "addr", body, "Resp1", "Unit1")
    add("unit_response", "owning.send", "owning", "let _ = {r}.send({M});", "Resp1", "Unit1")
    for name, body in [
        ("ctx.interval",         "{r}.interval({M}, D);"),
        ("ctx.interval_with",    "{r}.interval_with(|| {M}, D);"),
        ("ctx.delayed_send",     "{r}.delayed_send(|| {M}, D);"),
        ("ctx.weak_sender",      "let _ = {r}.weak_sender::<{M}>();"),
        ("ctx.subscribe",        "let _ = {r}.subscribe::<{M}>();"),
        ("ctx.publish",          "let _ = {r}.publish({M});"),
        ("ctx.register_child",   "{r}.register_child::<{M}>(child.clone());"),
        ("ctx.send_to_children", "{r}.send_to_children({M});"),
    ]:
        add("unit_response", name, "ctx", body, "Resp1", "Unit1")
    for name, body in [
        ("type Sender<M>",        "fn takes(_: Sender<{M}>) {{}}"),
        ("type Broker<M>",        "fn takes(_: Broker<{M}>) {{}}"),
        ("Broker::publish",       "let _ = Broker::publish({M});"),
        ("Broker::subscribe",     "let _ = Broker::<{M}>::subscribe(todo!());"),
        ("weak_sender.try_send",  "let w: WeakSender<{M}> = todo!(); let _ = w.try_send({M});"),
        ("weak_sender.upgrade",   "let w: WeakSender<{M}> = todo!(); let _ = w.upgrade();"),
    ]:
        add("unit_response", name, "none", body, "Resp1", "Unit1")
    # ... nor wrapped ones (Box / Arc / Option / tuple around a message with a response are no messages)
    for wname, wrap in [("box", "Box::new(Resp1)"), ("arc", "std::sync::Arc::new(Resp1)"), ("option", "Some(Resp1)"), ("tuple", "(Resp1,)")]:
        add("unit_response", f"addr.send/{wname}", "addr", "let _ = {r}.send({M});", wrap, "Unit1")
        add("unit_response", f"owning.send/{wname}", "owning", "let _ = {r}.send({M});", wrap, "Unit1")
        add("unit_response", f"ctx.delayed_send/{wname}", "ctx", "{r}.delayed_send(|| {M}, D);", wrap, "Unit1")
        add("unit_response", f"ctx.send_to_children/{wname}", "ctx", "{r}.send_to_children({M});", wrap, "Unit1")
        add("unit_response", f"Broker::publish/{wname}", "none", "let _ = Broker::publish({M});", wrap, "Unit1")
    # R6 type-erased handles only take their own message (cannot be bypassed)
    for name, body, ill, ok in [
        ("sender.send_other",        "let _ = {r}.sender::<Unit1>().send({M});", "Unit2", "Unit1"),
        ("sender.send_resp",         "let _ = {r}.sender::<Unit1>().send({M});", "Resp1", "Unit1"),
        ("weak_sender.upgrade.send", "let _ = {r}.weak_sender::<Unit1>().upgrade().unwrap().send({M});", "Unhandled", "Unit1"),
        ("weak_sender.try_send",     "let _ = {r}.weak_sender::<Unit1>().try_send({M});", "Resp1", "Unit1"),
        ("caller.call_other",        "let _ = {r}.caller::<Resp1>().call({M});", "Unit1", "Resp1"),
        ("weak_caller.try_call",     "let _ = {r}.weak_caller::<Resp1>().try_call({M});", "UnhandledResp", "Resp1"),
        ("weak_caller.upgrade.call", "let _ = {r}.caller::<Resp1>().downgrade().upgrade().unwrap().call({M});", "Unhandled", "Resp1"),
        ("sender_retype",            "let _s: Sender<{M}> = {r}.sender::<Unit1>();", "Unhandled", "Unit1"),
        ("weak_sender_retype",       "let _s: WeakSender<{M}> = {r}.sender::<Unit1>().downgrade();", "Resp1", "Unit1"),
        ("caller_retype",            "let _s: Caller<{M}> = {r}.caller::<Resp1>();", "UnhandledResp", "Resp1"),
    ]:
        add("no_bypass", name, "addr", body, ill, ok)
    # R3 restart only for restartable actors ({A} = actor type of the receiver)
    add("restart_restartable", "addr.restart", "addr_mut", "let _ = {r}.restart();", "Plain", "Rest")
    add("restart_restartable", "ctx.restart", "ctx", "let _ = {r}.restart();", "Plain", "Rest")
    add("restart_restartable", "weak.upgrade.restart", "addr", "let _ = {r}.downgrade().upgrade().unwrap().restart();", "Plain", "Rest")
    add("restart_restartable", "owning.to_addr.restart", "owning", "let _ = {r}.to_addr().restart();", "Plain", "Rest")
    # R4 stream only on a non-restartable builder; stream handler required
    for name, ill, ok in [
        ("with_stream(default strategy)",   "hannibal::build(Strm).unbounded().with_stream(stream())", "hannibal::build(Strm).unbounded().non_restartable().with_stream(stream())"),
        ("with_stream(bounded default)",    "hannibal::build(Strm).bounded(1).with_stream(stream())", "hannibal::build(Strm).bounded(1).non_restartable().with_stream(stream())"),
        ("with_stream(recreate)",           "hannibal::build(Strm).unbounded().recreate_from_default().with_stream(stream())", "hannibal::build(Strm).on_stream(stream())"),
        ("stream then recreate",            "hannibal::build(Strm).on_stream(stream()).recreate_from_default()", "hannibal::build(Strm).bounded_on_stream(1, stream())"),
        ("on_stream without StreamHandler", "hannibal::build(Plain).on_stream(stream())", "hannibal::build(Strm).on_stream(stream())"),
        ("bounded_on_stream without StreamHandler", "hannibal::build(Plain).bounded_on_stream(2, stream())", "hannibal::build(Strm).bounded_on_stream(2, stream())"),
        ("spawn_on_stream without StreamHandler", "Plain.spawn_on_stream(stream())", "Strm.spawn_on_stream(stream())"),
        ("spawn_owning_on_stream without StreamHandler", "Plain.spawn_owning_on_stream(stream())", "Strm.spawn_owning_on_stream(stream())"),
        ("wrong item type", "hannibal::build(Strm).on_stream(futures::stream::iter(vec![\"x\"]))", "hannibal::build(Strm).on_stream(futures::stream::iter(vec![1i32]))"),
    ]:
        add("stream_builder", name, "expr", "let _ = {M};", ill, ok)
    # R5 recreate-from-default requires Default (and a restartable actor); Default-based entry points
    for name, ill, ok in [
        ("recreate_from_default without Default", "hannibal::build(RestNoDefault).unbounded().recreate_from_default()", "hannibal::build(Rest).unbounded().recreate_from_default()"),
        ("recreate_from_default bounded without Default", "hannibal::build(RestNoDefault).bounded(2).recreate_from_default().spawn()", "hannibal::build(Rest).bounded(2).recreate_from_default().spawn()"),
        ("recreate_from_default not restartable", "hannibal::build(PlainDefault).unbounded().recreate_from_default()", "hannibal::build(Rest).unbounded().recreate_from_default()"),
        ("recreate after non_restartable without Default", "hannibal::build(RestNoDefault).unbounded().non_restartable().recreate_from_default()", "hannibal::build(Rest).unbounded().non_restartable().recreate_from_default()"),
        ("spawn_default without Default", "Plain::spawn_default()", "Rest::spawn_default()"),
        ("DefaultSpawnable::spawn_owning without Default", "<Plain as DefaultSpawnable<_>>::spawn_owning()", "<Rest as DefaultSpawnable<_>>::spawn_owning()"),
    ]:
        add("recreate_default", name, "expr", "let _ = {M};", ill, ok)
    add("recreate_default", "Service without Default", "item", "impl Service for {M} {{}}", "Plain", "Rest")
    return C

def api_restart_methods():
    """R3 over the API of the *current* tree: every public method of a handle type or of the context that
    takes only `self` and whose name says "restart" is an entry point of the rule "restart only for
    restartable actors" - also methods that did not exist when the catalogue above was written."""
    import re, glob
    recv_of = {
        "Addr": ("mut a: Addr<{A}>", "a"),
        "WeakAddr": ("a: Addr<{A}>", "a.downgrade()"),
        "OwningAddr": ("o: OwningAddr<{A}>", "o"),
        "Context": ("ctx: &mut Context<{A}>", "ctx"),
        "Sender": ("a: Addr<{A}>", "a.sender::<Unit1>()"),
        "Caller": ("a: Addr<{A}>", "a.caller::<Resp1>()"),
        "WeakSender": ("a: Addr<{A}>", "a.weak_sender::<Unit1>()"),
        "WeakCaller": ("a: Addr<{A}>", "a.weak_caller::<Resp1>()"),
    }
    sig = re.compile(r"pub\s+(?:async\s+)?fn\s+(\w*restart\w*)\s*\(\s*(?:&\s*mut\s+self|&\s*self|mut\s+self|self)\s*,?\s*\)")
    found = []
    files = sorted(glob.glob("/repo/src/addr.rs") + glob.glob("/repo/src/addr/*.rs") + glob.glob("/repo/src/context.rs"))
    for path in files:
        ty = None
        for line in open(path):
            s = line.strip()
            if s.startswith("impl"):
                head = s.split("{")[0].split(" where")[0]
                if " for " in head:
                    head = head.split(" for ", 1)[1]
                else:
                    # drop the generics of the impl itself
                    depth, i = 0, 4
                    if head[4:5] == "<":
                        for i, ch in enumerate(head[4:], 4):
                            depth += ch == "<"
                            depth -= ch == ">"
                            if depth == 0:
                                break
                        i += 1
                    head = head[i:]
                m = re.match(r"\s*(?:crate::|super::)*(\w+)", head)
                ty = m.group(1) if m else None
                continue
            m = sig.search(s)
            if m and ty in recv_of and not s.startswith("//"):
                found.append((ty, m.group(1)))
    out = []
    for ty, meth in sorted(set(found)):
        params, expr = recv_of[ty]
        out.append(dict(rule="restart_restartable", name=f"api:{ty}::{meth}", recv="api", body="", ill="Plain", ok="Rest", pre="", params=params, expr=expr, method=meth))
    return out

EXPECTED_CODES = {"E0277", "E0599", "E0271", "E0308", "E0282", "E0283", "E0284", "E0276"}

def render_fn(fname, entry, ill, chain_steps):
    """returns source text of one function (or item)"""
    sub = entry["ill"] if ill else entry["ok"]
    recv = entry["recv"]
    actor = entry.get("actor", "Plain")
    if entry["rule"] == "restart_restartable":
        actor = sub
        sub = ""
    if recv == "api":
        return f"pub fn {fname}({entry['params'].format(A=actor)}) {{\n    let mut x = {entry['expr']}; let _ = x.{entry['method']}();\n}}\n"
    if recv == "item":
        # wrap in a module so that twin and ill impls do not collide
        return f"mod {fname} {{ use super::*; {entry['body'].format(M=sub)} }}\n"
    params, base = {
        "addr": (f"a: Addr<{actor}>, child: Addr<Plain>", "a"),
        "addr_mut": (f"mut a: Addr<{actor}>", "a"),
        "owning": (f"o: OwningAddr<{actor}>", "o"),
        "ctx": (f"ctx: &mut Context<{actor}>, child: Addr<Plain>, nounit_child: Sender<Unit1>", "ctx"),
        "none": ("", ""),
        "expr": ("", ""),
    }[recv]
    r = apply_chain(base, chain_steps) if base else ""
    body = entry["body"].format(r=r, M=sub) if "{r}" in entry["body"] else entry["body"].format(M=sub)
    if recv == "addr_mut" and chain_steps:
        body = f"let mut x = {r}; let _ = x.restart();"
    return f"pub fn {fname}({params}) {{\n    {body}\n}}\n"

def build_batch(tag, fns):
    """fns: list of (fname, source).  returns dict fname -> list of error codes"""
    d = os.path.join(WORK, tag)
    os.makedirs(os.path.join(d, "src"), exist_ok=True)
    with open(os.path.join(d, "Cargo.toml"), "w") as f:
        f.write('[package]\nname = "hv_typeck_batch"\nversion = "0.0.0"\nedition = "2024"\n[workspace]\n[dependencies]\nhannibal = { path = "/repo" }\nfutures = "0.3"\n')
    shutil.copy("/repo/Cargo.lock", os.path.join(d, "Cargo.lock"))
    src = WORLD
    spans = []
    line = src.count("\n") + 1
    for fname, text in fns:
        n = text.count("\n")
        spans.append((line, line + n - 1, fname))
        src += text
        line += n
    with open(os.path.join(d, "src", "lib.rs"), "w") as f:
        f.write(src)
    env = dict(os.environ, CARGO_NET_OFFLINE="true", CARGO_TARGET_DIR=os.path.join(WORK, "target"))
    p = subprocess.run(["cargo", "check", "--offline", "--message-format=json", "--quiet"], cwd=d, env=env, capture_output=True, text=True)
    errors = {}
    world_errors = []
    saw_any = False
    for l in p.stdout.splitlines():
        try:
            m = json.loads(l)
        except Exception:
            continue
        if m.get("reason") != "compiler-message":
            continue
        if m.get("target", {}).get("name") != "hv_typeck_batch":
            continue
        msg = m["message"]
        if msg.get("level") != "error":
            continue
        saw_any = True
        code = (msg.get("code") or {}).get("code") or "E????"
        prim = [s for s in msg.get("spans", []) if s.get("is_primary")] or msg.get("spans", [])
        hit = None
        for s in prim:
            for (a, b, fname) in spans:
                if a <= s["line_start"] <= b:
                    hit = fname
                    break
            if hit:
                break
        if hit:
            errors.setdefault(hit, []).append(code)
        elif prim:
            world_errors.append((code, msg.get("message")))
    ok = p.returncode == 0
    if not ok and not saw_any:
        raise RuntimeError("cargo check failed without diagnostics:\n" + p.stderr[-2000:])
    return errors, world_errors, ok

NOT_APPLICABLE = set()

def check_programs(tag, programs):
    """programs: list of dicts(fname, entry, ill, chain).  returns list of violations"""
    fns = [(p["fname"], render_fn(p["fname"], p["entry"], p["ill"], p["chain"])) for p in programs]
    errors, world_errors, ok = build_batch(tag, fns)
    if world_errors:
        raise RuntimeError(f"errors outside generated functions: {world_errors[:3]}")
    out = []
    # an API-derived entry whose twin does not compile (a method that needs more than the generator knows)
    # is not applicable - neither of the two verdicts says anything
    na = {p["entry"]["name"] for p in programs if p["entry"]["recv"] == "api" and not p["ill"] and errors.get(p["fname"])}
    NOT_APPLICABLE.update(na)
    for p, (_, text) in zip(programs, fns):
        codes = errors.get(p["fname"], [])
        if p["entry"]["name"] in na:
            continue
        if p["ill"]:
            if not codes:
                out.append(dict(sig=f"C19/accepted/{p['entry']['rule']}/{p['entry']['name']}", program=p, source=text, detail="ill-typed program was accepted by the compiler"))
            elif not (set(codes) & EXPECTED_CODES):
                out.append(dict(sig=f"C19/unexpected_error/{p['entry']['rule']}/{p['entry']['name']}", program=p, source=text, detail=f"rejected, but only with {codes}"))
        else:
            if codes:
                out.append(dict(sig=f"C19/twin_rejected/{p['entry']['rule']}/{p['entry']['name']}", program=p, source=text, detail=f"well-typed twin rejected with {codes}"))
    return out

def main():
    mode = sys.argv[1] if len(sys.argv) > 1 else "check"
    if mode == "warm":
        build_batch("b0", [("warm", "pub fn warm() {}\n")])
        return
    if mode == "replay":
        rep = json.load(open(sys.argv[2]))
        p = rep["program"]
        v = check_programs("replay", [p, dict(p, fname=p["fname"] + "_twin", ill=False)])
        if v:
            print(f"VIOLATION property=C19 replay={sys.argv[2]} signature={v[0]['sig']}")
            print(v[0]["detail"]); print(v[0]["source"])
            sys.exit(1)
        print("not reproduced: rejected as expected / twin accepted")
        sys.exit(0)
    tier = sys.argv[2] if len(sys.argv) > 2 else "quick"
    seed = int(os.environ.get("VERIF_SEED", "1"))
    t0 = time.time()
    rng = random.Random(seed)
    cat = catalogue()
    api = api_restart_methods()
    cat += api
    programs = []
    k = 0
    def mk(entry, ill, chain):
        nonlocal k
        k += 1
        return dict(fname=f"f{k}_{'ill' if ill else 'ok'}", entry=entry, ill=ill, chain=chain)
    # base catalogue, exhaustive
    for e in cat:
        programs.append(mk(e, True, []))
        programs.append(mk(e, False, []))
    base_n = len(cat)
    # sampled conversion chains on the receiver
    n_chained = 5000 if tier == "thorough" else 300
    chainable = [e for e in cat if e["recv"] in ("addr", "owning", "ctx", "addr_mut")]
    seen = set()
    chained = 0
    attempts = 0
    while chained < n_chained and attempts < n_chained * 20:
        attempts += 1
        e = rng.choice(chainable)
        depth = rng.randint(1, 3)
        recv = "addr" if e["recv"] == "addr_mut" else e["recv"]
        kind, steps = gen_chain(rng, recv, depth)
        if not steps:
            continue
        # the entry's method must exist on the final receiver kind: only chains that keep / reach an address
        if e["recv"] in ("addr", "addr_mut") and kind != "addr":
            continue
        if e["recv"] == "owning":
            # owning.* entries need the owning address itself: chain through to_addr and use addr entries instead
            continue
        if e["recv"] == "ctx":
            continue
        key = (e["rule"], e["name"], tuple(steps))
        if key in seen:
            continue
        seen.add(key)
        programs.append(mk(e, True, steps))
        programs.append(mk(e, False, steps))
        chained += 1
    # addr entries reached from an owning address / a context
    for e in [e for e in cat if e["recv"] == "addr"]:
        for start in ("owning", "ctx"):
            for _ in range(3 if tier == "thorough" else 1):
                kind, steps = gen_chain(rng, start, rng.randint(1, 3))
                if kind != "addr":
                    continue
                key = (e["rule"], e["name"], start, tuple(steps))
                if key in seen:
                    continue
                seen.add(key)
                e2 = dict(e, recv=start)
                programs.append(mk(e2, True, steps))
                programs.append(mk(e2, False, steps))
                chained += 1
    # batches
    batch_size = 400
    violations = []
    nb = 0
    try:
        for i in range(0, len(programs), batch_size):
            nb += 1
            violations += check_programs(f"b{i // batch_size % 4}", programs[i:i + batch_size])
        # the twins alone must compile
        twins = [p for p in programs if not p["ill"] and p["entry"]["recv"] != "api"][:600]
        fns = [(p["fname"], render_fn(p["fname"], p["entry"], False, p["chain"])) for p in twins]
        _, world_errors, ok = build_batch("twins", fns)
        if not ok:
            violations.append(dict(sig="C19/twins_crate_rejected", program=twins[0], source="", detail="the crate of well-typed twins does not compile"))
    except RuntimeError as ex:
        print(f"HARNESS-ERROR: {ex}", file=sys.stderr)
        sys.exit(2)
    # minimise chains of failing programs and write replays
    out_dir = os.path.join(ROOT, "out", "replays", "C19")
    seen_sig = set()
    reported = []
    for v in violations:
        if v["sig"] in seen_sig:
            continue
        seen_sig.add(v["sig"])
        p = v["program"]
        while p["chain"]:
            q = dict(p, chain=p["chain"][:-1])
            vv = check_programs("min", [q])
            if vv and vv[0]["sig"] == v["sig"]:
                p = q
            else:
                break
        os.makedirs(out_dir, exist_ok=True)
        path = os.path.join(out_dir, hashlib.sha1(v["sig"].encode()).hexdigest()[:12] + ".json")
        json.dump(dict(property="C19", signature=v["sig"], detail=v["detail"], program=p, source=render_fn(p["fname"], p["entry"], p["ill"], p["chain"])), open(path, "w"), indent=1)
        reported.append((v["sig"], path))
    # regression replays
    reg = os.path.join(ROOT, "replays", "C19")
    if os.path.isdir(reg):
        for f in sorted(os.listdir(reg)):
            rep = json.load(open(os.path.join(reg, f)))
            vv = check_programs("reg", [rep["program"]])
            if vv:
                reported.append((vv[0]["sig"], os.path.join(reg, f)))
    for sig, path in reported:
        print(f"VIOLATION property=C19 replay={path} signature={sig}")
    ill = [p for p in programs if p["ill"]]
    distinct = len({(p["entry"]["rule"], p["entry"]["name"], p["entry"]["recv"], tuple(p["chain"])) for p in ill})
    samples = []
    for p in (ill[0], ill[len(ill) // 2], ill[-1]):
        samples.append(dict(rule=p["entry"]["rule"], entry=p["entry"]["name"], chain=p["chain"], ill_typed=render_fn(p["fname"], p["entry"], True, p["chain"]), twin=render_fn(p["fname"], p["entry"], False, p["chain"])))
    ev = dict(property_id="C19", tier=tier, seed=seed, level="exploration",
              coverage=dict(evaluations=len(programs), distinct_nontrivial=distinct,
                            rule="grammar-generated client functions: rule in {handler required, unit response for fire-and-forget, no bypass through type-erased / weak handles, restart only for restartable actors (the catalogue's entries plus every public self-only method of a handle type / the context in the current tree whose name contains 'restart'), stream only on a non-restartable builder (and StreamHandler required), recreate-from-default / default spawns / Service require Default} x entry point x conversion chain of depth 0-3 on the receiver; every ill-typed function applies exactly one violation and is paired with its well-typed twin; one cargo check per batch, compiler errors mapped to functions by line; expected: ill-typed => at least one error with a type-checking code, twin => no error; every ill-typed program is non-trivial; distinct = (rule, entry, receiver, chain)",
                            samples=samples, api_derived_entries=[e["name"] for e in api], api_derived_not_applicable=sorted(NOT_APPLICABLE), base_catalogue_entries=base_n, base_catalogue_exhaustive=True, chained_programs=chained, batches=nb, exhaustive=False),
              assumptions=["the typing table in the generator (which types have which handlers / traits) is the reference model", "rustc's diagnostics identify the offending function by the primary span"],
              wall_s=time.time() - t0, violations=len(reported))
    os.makedirs(os.path.join(ROOT, "evidence"), exist_ok=True)
    json.dump(ev, open(os.path.join(ROOT, "evidence", "C19.json"), "w"), indent=1)
    print(f"C19 {tier}: {len(programs)} programs ({base_n} catalogue entries x 2, {chained} chained x 2), {distinct} distinct ill-typed, {len(reported)} violations, {time.time() - t0:.1f}s")
    sys.exit(1 if reported else 0)

if __name__ == "__main__":
    main()
