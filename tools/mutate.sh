#!/bin/sh
# tools/mutate.sh <patch> <Cxx> [<Cxx> ...]  - apply a patch to /repo, run quick checks, always revert
P="$(realpath "$1")"; shift
cd /repo || exit 2
if ! git diff --quiet; then echo "/repo has uncommitted changes"; exit 2; fi
trap 'git -C /repo checkout -- . ; git -C /repo clean -fdq src' EXIT INT TERM
git apply "$P" || exit 2
for c in "$@"; do
  echo "== $c on $(basename "$P")"
  /verif/check "$c" quick | grep -E "VIOLATION|KNOWN|quick:|ERROR" | head -5
done
