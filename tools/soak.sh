#!/bin/sh
# tools/soak.sh <tier> <seed...> : run every registered check with the given seeds; print only what is not clean
TIER="$1"; shift
for seed in "$@"; do
  for i in 01 02 03 04 05 06 07 08 09 10 11 12 13 14 15 16 17 18 19; do
    [ -n "$ONLY" ] && case " $ONLY " in *" C$i "*) ;; *) continue;; esac
    OUT=$(VERIF_SEED=$seed ./check C$i $TIER 2>&1); RC=$?
    echo "seed=$seed C$i rc=$RC $(echo "$OUT" | grep -E "$TIER:" | tail -1)"
    if [ $RC -ne 0 ]; then echo "$OUT" | grep -E "VIOLATION|ERROR|KNOWN" | head -5; fi
  done
done
