#!/bin/sh
# tools/verify_seeded_c19.sh <worktree> <bugdir>: a C19 seeded change: `cargo check --example demo` is rejected without the
# change and accepted with it; builds (default, verif); 41 lib tests pass.
WT="$1"; BUG="$2"
export CARGO_NET_OFFLINE=true CARGO_TARGET_DIR="$WT/target"
cd "$WT" || exit 2
git checkout -q -- . ; rm -f examples/demo.rs tests/demo.rs
cp "$BUG/demo.rs" examples/demo.rs
cargo check --offline -q --example demo >/dev/null 2>&1; W=$?
git apply "$BUG/patch.diff" || { echo "patch does not apply"; exit 2; }
cargo build --offline >/dev/null 2>&1; B1=$?
cargo build --offline --features verif >/dev/null 2>&1; B2=$?
SUITE=$(timeout 900 cargo test --offline --lib 2>&1 | grep -c "41 passed; 0 failed")
cargo check --offline -q --example demo >/dev/null 2>&1; P=$?
git checkout -q -- . ; rm -f examples/demo.rs
echo "check_without_rc=$W builds=$B1,$B2 suite_41_passed=$SUITE check_with_rc=$P"
[ $W -ne 0 ] && [ "$B1$B2" = "00" ] && [ "$SUITE" = "1" ] && [ $P -eq 0 ]
