#!/bin/sh
# tools/verify_seeded.sh <worktree> <bugdir>: confirm a seeded change: compiles (default + verif), the 41 lib tests
# pass, the demonstration fails with the change and passes without it.  Leaves the worktree clean.
WT="$1"; BUG="$2"
export CARGO_NET_OFFLINE=true CARGO_TARGET_DIR="$WT/target"
cd "$WT" || exit 2
git checkout -q -- . ; rm -f tests/demo.rs
cp "$BUG/demo.rs" tests/demo.rs
cargo test --offline --test demo >"$BUG/demo_without.log" 2>&1; W=$?
git apply "$BUG/patch.diff" || { echo "patch does not apply"; exit 2; }
cargo build --offline >/dev/null 2>&1; B1=$?
cargo build --offline --features verif >/dev/null 2>&1; B2=$?
timeout 900 cargo test --offline --lib 2>&1 | grep -E "^test result" >"$BUG/suite.log";
SUITE=$(grep -c "41 passed; 0 failed" "$BUG/suite.log")
timeout 300 cargo test --offline --test demo >"$BUG/demo_with.log" 2>&1; P=$?
git checkout -q -- . ; rm -f tests/demo.rs
echo "demo_without_patch_rc=$W build=$B1 build_verif=$B2 suite_41_passed=$SUITE demo_with_patch_rc=$P"
[ $W -eq 0 ] && [ $B1 -eq 0 ] && [ $B2 -eq 0 ] && [ "$SUITE" = "1" ] && [ $P -ne 0 ]
