#!/usr/bin/env python3
"""Coverage-guided stage of the thorough tier: builds the libFuzzer target against /repo's working
tree and runs J parallel campaigns (fixed -runs, seeds derived from VERIF_SEED, fresh corpus dirs)
for one E1 family.  A violation found by the target is written as an ordinary JSON replay; this
script prints the VIOLATION line, records the campaign in the evidence file and returns 1."""
import json, os, subprocess, sys, shutil, re, time

root = os.environ.get("HV_ROOT") or os.path.dirname(os.path.dirname(os.path.abspath(__file__)))
prop = sys.argv[1]
runs = int(sys.argv[2]) if len(sys.argv) > 2 else 150000
jobs = int(sys.argv[3]) if len(sys.argv) > 3 else 12
seed = int(os.environ.get("VERIF_SEED", "1"))
env = dict(os.environ, CARGO_NET_OFFLINE="true", HV_ROOT=root, HV_FUZZ_FAMILY=prop)
t0 = time.time()
b = subprocess.run(["cargo", "+nightly", "fuzz", "build", "-s", "none", "--fuzz-dir", os.path.join(root, "fuzz"), "sim"], env=env, capture_output=True, text=True)
if b.returncode != 0:
    sys.stderr.write(b.stderr[-3000:])
    print("BUILD-ERROR: the fuzz target does not build against /repo", file=sys.stderr)
    sys.exit(2)
binp = os.path.join(root, "fuzz/target/x86_64-unknown-linux-gnu/release/sim")
work = os.path.join(root, "out", "work", f"fuzz-{prop}-{os.getpid()}")
os.makedirs(work, exist_ok=True)
procs = []
for j in range(jobs):
    cd = os.path.join(work, f"c{j}")
    os.makedirs(cd, exist_ok=True)
    seed_dir = os.path.join(root, "corpus", prop)
    args = [binp, f"-runs={runs}", f"-seed={(seed * 1000 + j) % 2147483647 + 1}", "-max_len=160", "-len_control=0", "-timeout=60", "-rss_limit_mb=4096", f"-artifact_prefix={work}/", cd]
    if os.path.isdir(seed_dir):
        args.append(seed_dir)
    log = open(os.path.join(work, f"log{j}"), "w")
    procs.append((subprocess.Popen(args, env=env, stdout=log, stderr=subprocess.STDOUT), log))
viol = {}
execs = 0
corpus = 0
harness = False
for j, (p, log) in enumerate(procs):
    rc = p.wait()
    log.close()
    txt = open(os.path.join(work, f"log{j}"), errors="replace").read()
    for m in re.finditer(r"FUZZ-VIOLATION property=(\S+) replay=(\S+) signature=(\S+)", txt):
        viol.setdefault(m.group(3), m.group(2))
    m = re.findall(r"Done (\d+) runs", txt)
    if m:
        execs += int(m[-1])
    else:
        m2 = re.findall(r"#(\d+)\s", txt)
        if m2:
            execs += int(m2[-1])
    corpus += len(os.listdir(os.path.join(work, f"c{j}")))
    if rc != 0 and "FUZZ-VIOLATION" not in txt:
        harness = True
        sys.stderr.write(f"fuzz job {j} ended with rc={rc}:\n" + txt[-1500:] + "\n")
shutil.rmtree(work, ignore_errors=True)
for sig, path in viol.items():
    print(f"VIOLATION property={prop} replay={path} signature={sig}")
evp = os.path.join(root, "evidence", f"{prop}.json")
try:
    ev = json.load(open(evp))
    ev["coverage"]["fuzz_stage"] = dict(engine="libFuzzer (cargo-fuzz, -s none, debug assertions on)", decoder="seed of a generated base program + schedule bytes + structural edits (engine/hv-sim/src/fuzzdec.rs)", jobs=jobs, runs_per_job=runs, executions=execs, corpus_files=corpus, violations=len(viol), wall_s=round(time.time() - t0, 1))
    ev["coverage"]["evaluations"] = int(ev["coverage"]["evaluations"]) + execs
    ev["violations"] = int(ev.get("violations", 0)) + len(viol)
    ev["wall_s"] = float(ev["wall_s"]) + time.time() - t0
    json.dump(ev, open(evp, "w"), indent=1)
except Exception as e:
    print(f"cannot update evidence: {e}", file=sys.stderr)
print(f"{prop} fuzz stage: {execs} executions in {jobs} campaigns, corpus {corpus} files, {len(viol)} violations, {time.time() - t0:.1f}s")
sys.exit(1 if viol else (2 if harness else 0))
