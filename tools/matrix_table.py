#!/usr/bin/env python3
"""Merge the shard results of tools/seeded_matrix.py (seeded/MATRIX.<k>of<n>.json found under the given
directories) into seeded/MATRIX.json, copy the regression replays, and (re)write the table of section 9.4
in DESIGN.md between the SEEDED_TABLE markers."""
import json, glob, os, re, shutil, sys

ROOT = "/verif"
srcs = sys.argv[1:]
matrix = {}
mp = os.path.join(ROOT, "seeded", "MATRIX.json")
if os.path.exists(mp):
    matrix = json.load(open(mp))
for s in srcs:
    for f in glob.glob(os.path.join(s, "seeded", "MATRIX.*of*.json")):
        matrix.update(json.load(open(f)))
    for f in glob.glob(os.path.join(s, "replays", "C*", "seeded-*.json")):
        dst = os.path.join(ROOT, "replays", os.path.basename(os.path.dirname(f)))
        os.makedirs(dst, exist_ok=True)
        shutil.copy(f, dst)
json.dump(matrix, open(mp, "w"), indent=1, sort_keys=True)

def key(sid):
    p, n = sid.split("-")
    return (p, int(n))

rows = []
own = other = none = nobuild = 0
for sid in sorted(matrix, key=key):
    row = matrix[sid]
    prop = sid.split("-")[0]
    meta = {}
    try:
        meta = json.load(open(os.path.join(ROOT, "seeded", sid, "meta.json")))
    except Exception:
        pass
    summ = (meta.get("summary") or meta.get("mechanism") or "").replace("\n", " ").replace("|", "/")
    summ = summ[:110] + ("..." if len(summ) > 110 else "")
    if "error" in row:
        rows.append(f"| {sid} | {summ} | (patch does not apply) | |")
        continue
    broken = [c for c, v in row.items() if any(x.startswith("(exit") for x in v)]
    if broken and prop in broken:
        nobuild += 1
        others = sorted(c for c in row if c not in broken)
        rows.append(f"| {sid} | {summ} | (the harness does not build against this change: exit 2) | {' '.join(others) or '-'} |")
        continue
    mine = row.get(prop, [])
    others = sorted(c for c in row if c != prop)
    if mine:
        own += 1
    elif others:
        other += 1
    else:
        none += 1
    sig = ", ".join(s.split("/", 1)[1] if "/" in s else s for s in mine[:2]) or "**not reported**"
    rows.append(f"| {sid} | {summ} | {sig} | {' '.join(others) or '-'} |")

table = []
table.append(f"{len(matrix)} changes; {own} are reported by the check of the property they were written against, "
             f"{other} only by the check of another property, {none} by none and {nobuild} break the build of the harness itself (see the 'Not reached / not reported' items of section 4.A for each of those).  "
             "Columns: the change, what it does (from its meta.json), the first violation signatures of its own property's quick check, "
             "the other properties whose quick check reports it as well.  Reproduce a row with "
             "`tools/mutate.sh seeded/<id>/patch.diff <Cxx> ...`; the whole table with `tools/seeded_matrix.py` and `tools/matrix_table.py`.\n")
table.append("| change | what it does | own check reports | also reported by |")
table.append("|---|---|---|---|")
table.extend(rows)
text = "\n".join(table)
dp = os.path.join(ROOT, "DESIGN.md")
d = open(dp).read()
begin, end = "<!-- SEEDED_TABLE_BEGIN -->", "<!-- SEEDED_TABLE_END -->"
if "SEEDED_TABLE_PLACEHOLDER" in d:
    d = d.replace("SEEDED_TABLE_PLACEHOLDER", f"\n\n{begin}\n{text}\n{end}\n")
else:
    d = re.sub(re.escape(begin) + r".*?" + re.escape(end), lambda m: f"{begin}\n{text}\n{end}", d, flags=re.S)
open(dp, "w").write(d)
print(f"{len(matrix)} changes: own={own} other-only={other} none={none} nobuild={nobuild}")
