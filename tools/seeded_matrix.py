#!/usr/bin/env python3
"""Run the checks against every kept seeded change: apply seeded/<id>/patch.diff to /repo, run the
quick checks, record which check reports which violation signature, keep one minimised replay of
the target property as a regression case under replays/<Cxx>/, and always revert /repo."""
import json, os, re, subprocess, sys, glob, shutil

ROOT = os.environ.get("MX_ROOT", "/verif")
REPO = os.environ.get("MX_REPO", "/repo")
SHARD = os.environ.get("MX_SHARD")  # "i/n": only every n-th seeded id, offset i
ALL = [f"C{i:02d}" for i in range(1, 18)] + ["C19"]
only = sys.argv[1:]  # optional list of seeded ids

def sh(cmd, **kw):
    return subprocess.run(cmd, shell=True, capture_output=True, text=True, **kw)

def clean_repo():
    sh(f"git -C {REPO} checkout -- . && git -C {REPO} clean -fdq src")

assert sh(f"git -C {REPO} diff --quiet").returncode == 0, "/repo has uncommitted changes"
matrix = {}
mpath = os.path.join(ROOT, "seeded", "MATRIX.json" if not SHARD else "MATRIX.%s.json" % SHARD.replace("/", "of"))
if os.path.exists(mpath):
    matrix = json.load(open(mpath))
dirs = sorted(d for d in os.listdir(os.path.join(ROOT, "seeded")) if os.path.isdir(os.path.join(ROOT, "seeded", d)))
if SHARD:
    i, n = map(int, SHARD.split('/'))
    dirs = [d for k, d in enumerate(dirs) if k % n == i]
for sid in dirs:
    if only and sid not in only:
        continue
    prop = sid.split("-")[0]
    patch = os.path.join(ROOT, "seeded", sid, "patch.diff")
    try:
        if sh(f"git -C {REPO} apply {patch}").returncode != 0:
            matrix[sid] = {"error": "patch does not apply to the current /repo HEAD"}
            print(sid, "PATCH DOES NOT APPLY")
            continue
        checks = list(ALL)
        if prop in ("C17", "C18") or "spawner" in open(patch).read():
            checks.append("C18")
        row = {}
        for c in checks:
            shutil.rmtree(os.path.join(ROOT, "out", "replays", c), ignore_errors=True)
            r = sh(f"cd {ROOT} && ./check {c} quick")
            sigs = sorted(set(re.findall(r"signature=(\S+)", r.stdout)))
            if r.returncode == 1:
                row[c] = sigs
            elif r.returncode != 0:
                row[c] = [f"(exit {r.returncode})"]
            # regression replay for the target property (E1 only): re-based to ordinal 1 if it still reproduces
            if c == prop and r.returncode == 1 and c not in ("C18", "C19"):
                for f in sorted(glob.glob(os.path.join(ROOT, "out", "replays", c, "*.json")))[:1]:
                    rep = json.load(open(f))
                    rep["ordinal"] = 1
                    rep["history_excerpt"] = rep.get("history_excerpt", [])[:60]
                    rep["seeded_bug"] = sid
                    dst_dir = os.path.join(ROOT, "replays", c)
                    os.makedirs(dst_dir, exist_ok=True)
                    dst = os.path.join(dst_dir, f"seeded-{sid}.json")
                    json.dump(rep, open(dst, "w"), indent=1)
                    rr = sh(f"cd {ROOT} && ./engine/target/release/hv replay {dst} --quiet")
                    if rr.returncode != 1:
                        os.remove(dst)  # does not reproduce from a fresh process: not kept
        matrix[sid] = row
        print(sid, "caught by", {k: v[:2] for k, v in row.items()} or "NOTHING")
    finally:
        clean_repo()
    json.dump(matrix, open(mpath, "w"), indent=1, sort_keys=True)
# the regression replays must be silent on the unchanged tree
sh(f"cd {ROOT} && ./check C01 quick")
bad = []
for f in sorted(glob.glob(os.path.join(ROOT, "replays", "C*", "seeded-*.json"))):
    rr = sh(f"cd {ROOT} && ./engine/target/release/hv replay {f} --quiet")
    if rr.returncode != 0:
        bad.append(f)
        os.remove(f)
print("regression replays that fired on the unchanged tree (removed):", bad)
