#!/bin/sh
# tools/verify_seeded_c18.sh <worktree> <bugdir>: a C18 seeded change: examples/demo.rs exits 0 on all three runtimes
# without the change and non-zero on at least one with it; builds (default, verif, async, smol); 41 lib tests pass.
WT="$1"; BUG="$2"
export CARGO_NET_OFFLINE=true CARGO_TARGET_DIR="$WT/target"
cd "$WT" || exit 2
git checkout -q -- . ; rm -f examples/demo.rs tests/demo.rs
cp "$BUG/demo.rs" examples/demo.rs
run3() { R=""; for f in "" "--no-default-features --features async_runtime" "--no-default-features --features smol_runtime"; do timeout 120 cargo run --offline -q $f --example demo >/dev/null 2>&1; R="$R$?,"; done; echo "$R"; }
W=$(run3)
git apply "$BUG/patch.diff" || { echo "patch does not apply"; exit 2; }
cargo build --offline >/dev/null 2>&1; B1=$?
cargo build --offline --features verif >/dev/null 2>&1; B2=$?
cargo build --offline --no-default-features --features async_runtime >/dev/null 2>&1; B3=$?
cargo build --offline --no-default-features --features smol_runtime >/dev/null 2>&1; B4=$?
SUITE=$(timeout 900 cargo test --offline --lib 2>&1 | grep -c "41 passed; 0 failed")
P=$(run3)
git checkout -q -- . ; rm -f examples/demo.rs
echo "demo_without=$W builds=$B1,$B2,$B3,$B4 suite_41_passed=$SUITE demo_with=$P"
[ "$W" = "0,0,0," ] && [ "$B1$B2$B3$B4" = "0000" ] && [ "$SUITE" = "1" ] && [ "$P" != "0,0,0," ]
