#!/bin/sh
# tools/ingest_seeded.sh <Cxx> [suffix] [extra checks...]: verify the sub-agent's bugs for Cxx (worktree
# /tmp/wt/Cxx<suffix>, deliverables /tmp/wt-out/Cxx<suffix>/bugN), store them as seeded/Cxx-<k>, run the checks
P="$1"; SUF="$2"; shift; [ $# -gt 0 ] && shift; EXTRA="$*"
for B in /tmp/wt-out/$P$SUF/bug*; do
  [ -d "$B" ] || continue
  k=1; while [ -d seeded/$P-$k ]; do k=$((k+1)); done
  echo "### $P-$k  ($B)"
  if tools/verify_seeded.sh /tmp/wt/$P$SUF $B; then
    d=seeded/$P-$k; mkdir -p $d; cp $B/patch.diff $B/demo.rs $d/
    python3 - "$P" "$k" "$B" <<'PY'
import json,sys
p,k,b=sys.argv[1],sys.argv[2],sys.argv[3]
try: m=json.load(open(f'{b}/meta.json'))
except Exception as e: m={'summary':'(meta.json unreadable: %s)'%e}
m['breaks_property']=p
m['origin']='independent sub-agent given only the property text and a scratch worktree'
m['confirmed_by_me']={'how':'tools/verify_seeded.sh <scratch worktree> <dir>: demo passes on the unchanged tree, patch applies, cargo build (default and --features verif) ok, cargo test --lib shows 41 passed, demo fails with the patch','result':'confirmed'}
json.dump(m,open(f'/verif/seeded/{p}-{k}/meta.json','w'),indent=1)
PY
    for c in $P $EXTRA; do tools/mutate.sh $d/patch.diff $c 2>&1 | grep -E "VIOLATION|quick:|ERROR|error:" | cut -c1-220; done
  else
    echo "NOT CONFIRMED: $B"
  fi
done
