#!/bin/sh
# tools/ingest_seeded.sh <Cxx> [extra checks...]: verify the sub-agent's bugs for Cxx, store them, run the checks
P="$1"; shift; EXTRA="$*"
for B in /tmp/wt-out/$P/bug*; do
  [ -d "$B" ] || continue
  n=$(basename $B | sed 's/bug//')
  echo "### $P-$n"
  if tools/verify_seeded.sh /tmp/wt/$P $B; then
    d=seeded/$P-$n; mkdir -p $d; cp $B/patch.diff $B/demo.rs $d/
    python3 - "$P" "$n" <<'PY'
import json,sys
p,b=sys.argv[1],sys.argv[2]
try: m=json.load(open(f'/tmp/wt-out/{p}/bug{b}/meta.json'))
except Exception as e: m={'summary':'(meta.json unreadable: %s)'%e}
m['breaks_property']=p
m['origin']='independent sub-agent given only the property text and a scratch worktree'
m['confirmed_by_me']={'how':'tools/verify_seeded.sh <scratch worktree> <dir>: demo passes on the unchanged tree, patch applies, cargo build (default and --features verif) ok, cargo test --lib shows 41 passed, demo fails with the patch','result':'confirmed'}
json.dump(m,open(f'/verif/seeded/{p}-{b}/meta.json','w'),indent=1)
PY
    for c in $P $EXTRA; do tools/mutate.sh $d/patch.diff $c 2>&1 | grep -E "VIOLATION|quick:|ERROR" | cut -c1-220; done
  else
    echo "NOT CONFIRMED: $B"
  fi
done
