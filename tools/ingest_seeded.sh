#!/bin/sh
# tools/ingest_seeded.sh <Cxx> [suffix] [extra checks...]: verify the sub-agent's bugs for Cxx (worktree
# /tmp/wt/Cxx<suffix>, deliverables /tmp/wt-out/Cxx<suffix>/bugN), store them as seeded/Cxx-<k>, run the checks
P="$1"; SUF="$2"; shift; [ $# -gt 0 ] && shift; EXTRA="$*"
for B in /tmp/wt-out/$P$SUF/bug*; do
  [ -d "$B" ] || continue
  k=1; while [ -d seeded/$P-$k ]; do k=$((k+1)); done
  echo "### $P-$k  ($B)"
  V=tools/verify_seeded.sh; [ "$P" = C18 ] && V=tools/verify_seeded_c18.sh; [ "$P" = C19 ] && V=tools/verify_seeded_c19.sh
  if $V /tmp/wt/$P$SUF $B; then
    d=seeded/$P-$k; mkdir -p $d; cp $B/patch.diff $B/demo.rs $d/
    python3 - "$P" "$k" "$B" <<'PY'
import json,sys
p,k,b=sys.argv[1],sys.argv[2],sys.argv[3]
try: m=json.load(open(f'{b}/meta.json'))
except Exception as e: m={'summary':'(meta.json unreadable: %s)'%e}
m['breaks_property']=p
m['origin']='independent sub-agent given only the property text and a scratch worktree'
how={'C18':'tools/verify_seeded_c18.sh <scratch worktree> <dir>: examples/demo.rs exits 0 on tokio, async-std and smol on the unchanged tree and non-zero on at least one runtime with the patch; builds with default, verif, async_runtime and smol_runtime features; cargo test --lib shows 41 passed','C19':'tools/verify_seeded_c19.sh <scratch worktree> <dir>: cargo check --example demo is rejected on the unchanged tree and accepted with the patch; cargo build (default and --features verif) ok; cargo test --lib shows 41 passed'}.get(p,'tools/verify_seeded.sh <scratch worktree> <dir>: demo passes on the unchanged tree, patch applies, cargo build (default and --features verif) ok, cargo test --lib shows 41 passed, demo fails with the patch')
m['confirmed_by_me']={'how':how,'result':'confirmed'}
json.dump(m,open(f'/verif/seeded/{p}-{k}/meta.json','w'),indent=1)
PY
    [ -n "$SKIP_MUTATE" ] || for c in $P $EXTRA; do tools/mutate.sh $d/patch.diff $c 2>&1 | grep -E "VIOLATION|quick:|ERROR|error:" | cut -c1-220; done
  else
    echo "NOT CONFIRMED: $B"
  fi
done
