//! E2: cross-runtime differential runner for C18.
//! One source, built three times (features rt_tokio / rt_async / rt_smol).
//!   hv-rt gen <seed> <n> <big> <out.json>     generate programs (proptest)
//!   hv-rt run <programs.json> <out.json>      execute them on this build's runtime
//!   hv-rt name                                print the runtime name
use std::{
    sync::{Arc, Mutex},
    time::Duration,
};

use futures::FutureExt as _;
use hannibal::{prelude::*, Addr, OwningAddr, RestartableActor, spawner::DefaultSpawnable};
use serde::{Deserialize, Serialize};

#[cfg(feature = "rt_tokio")]
const RUNTIME: &str = "tokio";
#[cfg(feature = "rt_async")]
const RUNTIME: &str = "async-std";
#[cfg(feature = "rt_smol")]
const RUNTIME: &str = "smol";

// ---------------------------------------------------------------------------------------------
// program model

#[derive(Clone, Copy, Debug, PartialEq, Eq, Hash, Serialize, Deserialize)]
pub enum Strat {
    Default,
    Recreate,
    NonRestartable,
}

#[derive(Clone, Debug, PartialEq, Eq, Hash, Serialize, Deserialize)]
pub enum Entry {
    Spawn,
    SpawnOwning,
    SpawnDefault,
    SpawnDefaultOwning,
    SpawnOnStream,
    SpawnOwningOnStream,
    Build { bounded: Option<u8>, strat: Strat, owning: bool },
    BuildOnStream { bounded: Option<u8>, owning: bool },
    BuildRegister { bounded: Option<u8> },
    /// builder with a handler limit of HANDLER_LIMIT (first or second builder stage), failing or carrying on
    BuildTimeout { fail: bool, owning: bool, late: bool },
    FromRegistry,
    SetupThenFromRegistry,
    SpawnThenRegister,
}

#[derive(Clone, Debug, PartialEq, Eq, Hash, Serialize, Deserialize)]
pub enum Op {
    Get,
    Add(i8),
    Ping,
    CloneAddr,
    /// drop one plain address (never the last handle unless `last` ops follow)
    DropAddr(u8),
    /// drop the owning address while a clone of the plain address is kept
    DropOwning,
    Detach,
    Stop,
    Halt,
    Join,
    /// join, then join again (the value is handed out once)
    JoinTwice,
    /// OwningAddr::consume
    Consume,
    /// OwningAddr::consume_sync, then await the returned future
    ConsumeSync,
    /// create the join future, drop the owning address (a clone of the plain address is kept), stop, await the future
    LazyJoinThenDrop,
    /// create a join future, poll it once, drop it (the losing arm of a select): the actor lives on
    JoinPollDrop,
    /// create a join future and drop it without a poll: nothing has happened
    JoinDiscard,
    /// a second join() while a first join future is pending returns None at once; the first one gets the actor
    JoinWhilePending,
    Await,
    Restart,
    /// register an interval (kind 0) / interval_with (kind 1) that stops the actor after k ticks, then await the end
    TicksThenStop { with: bool, k: u8, period_ms: u8 },
    /// delayed_send of a message that stops the actor, then await the end
    DelayedStop { ms: u8 },
    /// the same with a delay above one second; the elapsed time must not be shorter than the delay
    LongDelayedStop,
    /// interval / interval_with that stops the actor after `k` ticks of `period_us`; the elapsed time must
    /// not be shorter than k periods (a timer never fires early: one-sided, load can only make it later)
    TimedTicks { with: bool, k: u8, period_us: u32 },
    Feed(u8),
    EndStream,
    /// let the runtime run
    Pause,
    /// leave the actor idle for longer than HANDLER_LIMIT, then call a handler that awaits a few times and
    /// is done within a few milliseconds: the limit is per invocation, however long the actor has lived
    IdleThenYieldingGet,
    /// spawn `n` more (idle) actors through spawn / spawn_owning / the builder, ask each of them once, drop
    /// them: every spawned actor runs, however many are alive
    Crowd { n: u16 },
    /// send a message, then block the calling thread (no await) until the actor has handled it: a
    /// spawned actor makes progress on its own, whatever the task that spawned it does
    BlockingProbe,
    /// arm a delayed_exec, halt the actor before the delay is over, wait: the body never runs
    ExecAfterHalt,
    /// arm a delayed_exec whose body is still running when the actor is halted: the body never completes
    ExecBodyAfterHalt,
}

#[derive(Clone, Debug, PartialEq, Eq, Hash, Serialize, Deserialize)]
pub struct Program {
    pub id: u32,
    pub entry: Entry,
    pub ops: Vec<Op>,
}

#[derive(Clone, Debug, Default, PartialEq, Eq, Serialize, Deserialize)]
pub struct Record {
    pub id: u32,
    /// result of the liveness probe right after the entry point
    pub alive_after_entry: String,
    pub ops: Vec<String>,
    pub started: u32,
    pub stopped: u32,
    pub finished: u32,
    pub ticks: u32,
    pub values_created: u32,
    pub values_dropped: u32,
    pub watchdog: bool,
}

// ---------------------------------------------------------------------------------------------
// the actor

#[derive(Default)]
struct Stats {
    started: u32,
    stopped: u32,
    finished: u32,
    ticks: u32,
    created: u32,
    dropped: u32,
}

static STATS: Mutex<Option<Arc<Mutex<Stats>>>> = Mutex::new(None);
/// progress observable without awaiting: handled `Add` messages, `delayed_exec` bodies that ran
static ADDS: std::sync::atomic::AtomicU32 = std::sync::atomic::AtomicU32::new(0);
static EXEC_RAN: std::sync::atomic::AtomicU32 = std::sync::atomic::AtomicU32::new(0);

fn stats() -> Arc<Mutex<Stats>> {
    STATS.lock().unwrap().clone().expect("stats installed")
}

pub struct Counter {
    sum: i64,
    ticks_left: u8,
    stats: Arc<Mutex<Stats>>,
}

impl Counter {
    fn new() -> Self {
        let stats = stats();
        stats.lock().unwrap().created += 1;
        Counter { sum: 0, ticks_left: 0, stats }
    }
}
impl Default for Counter {
    fn default() -> Self {
        Counter::new()
    }
}
impl Drop for Counter {
    fn drop(&mut self) {
        self.stats.lock().unwrap().dropped += 1;
    }
}

impl Actor for Counter {
    async fn started(&mut self, _ctx: &mut Context<Self>) -> DynResult<()> {
        self.stats.lock().unwrap().started += 1;
        Ok(())
    }
    async fn stopped(&mut self, _ctx: &mut Context<Self>) {
        self.stats.lock().unwrap().stopped += 1;
    }
}
impl RestartableActor for Counter {}
impl Service for Counter {}

#[derive(Clone)]
struct Add(i64);
impl Message for Add {
    type Response = ();
}
struct Get;
impl Message for Get {
    type Response = i64;
}
#[derive(Clone)]
struct Tick;
impl Message for Tick {
    type Response = ();
}
struct Arm {
    with: bool,
    k: u8,
    period: Duration,
}
impl Message for Arm {
    type Response = ();
}
struct ArmDelayed(Duration);
impl Message for ArmDelayed {
    type Response = ();
}
/// register a delayed_exec whose body takes a while and records that it ran to its end
struct ArmExecLong(Duration, Duration);
impl Message for ArmExecLong {
    type Response = ();
}
impl Handler<ArmExecLong> for Counter {
    async fn handle(&mut self, ctx: &mut Context<Self>, m: ArmExecLong) {
        let body = m.1;
        ctx.delayed_exec(
            async move {
                hannibal::runtime::sleep(body).await;
                EXEC_RAN.fetch_add(1, std::sync::atomic::Ordering::SeqCst);
            },
            m.0,
        );
    }
}
/// register a delayed_exec whose body records that it ran
struct ArmExec(Duration);
impl Message for ArmExec {
    type Response = ();
}
impl Handler<ArmExec> for Counter {
    async fn handle(&mut self, ctx: &mut Context<Self>, m: ArmExec) {
        ctx.delayed_exec(
            async {
                EXEC_RAN.fetch_add(1, std::sync::atomic::Ordering::SeqCst);
            },
            m.0,
        );
    }
}
#[derive(Clone)]
struct StopNow;
impl Message for StopNow {
    type Response = ();
}

impl Handler<Add> for Counter {
    async fn handle(&mut self, _ctx: &mut Context<Self>, m: Add) {
        self.sum += m.0;
        ADDS.fetch_add(1, std::sync::atomic::Ordering::SeqCst);
    }
}
impl Handler<Get> for Counter {
    async fn handle(&mut self, _ctx: &mut Context<Self>, _m: Get) -> i64 {
        self.sum
    }
}
/// an idle bystander (no statistics: the record counts `Counter` only)
struct Cell(usize);
impl Actor for Cell {}
struct CellGet;
impl Message for CellGet {
    type Response = usize;
}
impl Handler<CellGet> for Cell {
    async fn handle(&mut self, _ctx: &mut Context<Self>, _m: CellGet) -> usize {
        self.0
    }
}
struct YieldingGet;
impl Message for YieldingGet {
    type Response = i64;
}
impl Handler<YieldingGet> for Counter {
    async fn handle(&mut self, _ctx: &mut Context<Self>, _m: YieldingGet) -> i64 {
        for _ in 0..3 {
            hannibal::runtime::sleep(Duration::from_millis(1)).await;
        }
        self.sum
    }
}
impl Handler<Tick> for Counter {
    async fn handle(&mut self, ctx: &mut Context<Self>, _m: Tick) {
        if self.ticks_left > 0 {
            self.stats.lock().unwrap().ticks += 1;
            self.ticks_left -= 1;
            if self.ticks_left == 0 {
                let _ = ctx.stop();
            }
        }
    }
}
impl Handler<Arm> for Counter {
    async fn handle(&mut self, ctx: &mut Context<Self>, m: Arm) {
        self.ticks_left = m.k;
        if m.with {
            ctx.interval_with(|| Tick, m.period);
        } else {
            ctx.interval(Tick, m.period);
        }
    }
}
impl Handler<ArmDelayed> for Counter {
    async fn handle(&mut self, ctx: &mut Context<Self>, m: ArmDelayed) {
        ctx.delayed_send(|| StopNow, m.0);
    }
}
impl Handler<StopNow> for Counter {
    async fn handle(&mut self, ctx: &mut Context<Self>, _m: StopNow) {
        let _ = ctx.stop();
    }
}
impl StreamHandler<i64> for Counter {
    async fn handle(&mut self, _ctx: &mut Context<Self>, m: i64) {
        self.sum += m;
    }
    async fn finished(&mut self, _ctx: &mut Context<Self>) {
        self.stats.lock().unwrap().finished += 1;
    }
}

// ---------------------------------------------------------------------------------------------
// running

const WATCHDOG: Duration = Duration::from_secs(2);
/// two orders of magnitude above what any handler of `Counter` needs
const HANDLER_LIMIT: Duration = Duration::from_millis(500);

/// await with a watchdog; None = timed out.  A panic inside the awaited operation (e.g. a join
/// handle polled after completion) is caught and re-raised as the `Panicked` marker error.
async fn guarded<T>(f: impl Future<Output = T>) -> Option<T> {
    futures::select! {
        r = f.fuse() => Some(r),
        _ = hannibal::runtime::sleep(WATCHDOG).fuse() => None,
    }
}

async fn no_panic<T>(f: impl Future<Output = T>) -> Result<T, ()> {
    std::panic::AssertUnwindSafe(f).catch_unwind().await.map_err(|_| ())
}

fn show<T: std::fmt::Debug, E: std::fmt::Debug>(r: Result<T, E>) -> String {
    match r {
        Ok(v) => format!("Ok({v:?})"),
        // error variants may legitimately differ in wording between runtimes: compare the class only
        Err(_) => "Err".to_string(),
    }
}

type ItemTx = futures::channel::mpsc::UnboundedSender<i64>;

struct Live {
    addrs: Vec<Addr<Counter>>,
    owning: Option<OwningAddr<Counter>>,
    stream: Option<ItemTx>,
    restartable: bool,
}

async fn enter(entry: &Entry) -> Live {
    let mk_stream = || futures::channel::mpsc::unbounded::<i64>();
    let mut live = Live { addrs: vec![], owning: None, stream: None, restartable: true };
    match entry {
        Entry::Spawn => live.addrs.push(Counter::new().spawn()),
        Entry::SpawnOwning => live.owning = Some(hannibal::spawner::Spawnable::spawn_owning(Counter::new())),
        Entry::SpawnDefault => live.addrs.push(Counter::spawn_default().unwrap()),
        Entry::SpawnDefaultOwning => live.owning = Some(<Counter as DefaultSpawnable<_>>::spawn_owning().unwrap()),
        Entry::SpawnOnStream => {
            let (tx, rx) = mk_stream();
            live.stream = Some(tx);
            live.restartable = false;
            live.addrs.push(Counter::new().spawn_on_stream(rx).unwrap());
        }
        Entry::SpawnOwningOnStream => {
            let (tx, rx) = mk_stream();
            live.stream = Some(tx);
            live.restartable = false;
            live.owning = Some(Counter::new().spawn_owning_on_stream(rx).unwrap());
        }
        Entry::Build { bounded, strat, owning } => {
            let b = hannibal::build(Counter::new());
            let b = match bounded {
                Some(n) => b.bounded(*n as usize),
                None => b.unbounded(),
            };
            macro_rules! fin {
                ($b:expr) => {
                    if *owning { live.owning = Some($b.spawn_owning()) } else { live.addrs.push($b.spawn()) }
                };
            }
            match strat {
                Strat::Default => fin!(b),
                Strat::Recreate => fin!(b.recreate_from_default()),
                Strat::NonRestartable => fin!(b.non_restartable()),
            }
        }
        Entry::BuildOnStream { bounded, owning } => {
            let (tx, rx) = mk_stream();
            live.stream = Some(tx);
            live.restartable = false;
            let b = match bounded {
                Some(n) => hannibal::build(Counter::new()).bounded_on_stream(*n as usize, rx),
                None => hannibal::build(Counter::new()).on_stream(rx),
            };
            if *owning { live.owning = Some(b.spawn_owning()) } else { live.addrs.push(b.spawn()) }
        }
        Entry::BuildRegister { bounded } => {
            let b = hannibal::build(Counter::new());
            let r = match bounded {
                Some(n) => b.bounded(*n as usize).register().await,
                None => b.unbounded().register().await,
            };
            live.addrs.push(r.expect("register on an empty registry").0);
        }
        Entry::BuildTimeout { fail, owning, late } => {
            let b = if *late {
                hannibal::build(Counter::new()).unbounded().timeout(HANDLER_LIMIT).fail_on_timeout(*fail)
            } else {
                hannibal::build(Counter::new()).timeout(HANDLER_LIMIT).fail_on_timeout(*fail).unbounded()
            };
            if *owning { live.owning = Some(b.spawn_owning()) } else { live.addrs.push(b.spawn()) }
        }
        Entry::FromRegistry => live.addrs.push(Counter::from_registry().await),
        Entry::SetupThenFromRegistry => {
            Counter::setup().await.expect("setup");
            live.addrs.push(Counter::from_registry().await);
        }
        Entry::SpawnThenRegister => {
            let a = Counter::new().spawn();
            live.addrs.push(a.register().await.expect("register on an empty registry").0);
        }
    }
    live
}

fn any_addr(live: &Live) -> Option<Addr<Counter>> {
    live.addrs.last().cloned().or_else(|| live.owning.as_ref().map(|o| o.to_addr()))
}

async fn run_program(p: &Program) -> Record {
    let st = Arc::new(Mutex::new(Stats::default()));
    *STATS.lock().unwrap() = Some(Arc::clone(&st));
    drop(Addr::<Counter>::unregister().await);
    let mut rec = Record { id: p.id, ..Default::default() };
    let mut live = enter(&p.entry).await;
    // "keeps running after the call has returned": yield to the runtime, then ask
    hannibal::runtime::sleep(Duration::from_millis(3)).await;
    rec.alive_after_entry = match any_addr(&live) {
        Some(a) => match guarded(a.call(Get)).await {
            Some(r) => show(r),
            None => {
                rec.watchdog = true;
                "watchdog".into()
            }
        },
        None => "no-handle".into(),
    };
    let mut ended = false;
    for op in &p.ops {
        if ended {
            // everything after the end of the actor races with the runtime tearing the task down
            rec.ops.push("ended".into());
            continue;
        }
        let mut wd = false;
        macro_rules! g {
            ($f:expr) => {
                match guarded($f).await {
                    Some(r) => show(r),
                    None => {
                        wd = true;
                        "watchdog".to_string()
                    }
                }
            };
        }
        let target = any_addr(&live);
        let out: String = match op {
            Op::Get => match &target {
                Some(a) => g!(a.call(Get)),
                None => "skip".into(),
            },
            Op::Add(k) => match &target {
                Some(a) => g!(a.send(Add(*k as i64))),
                None => "skip".into(),
            },
            Op::Ping => match &target {
                Some(a) => g!(a.ping()),
                None => "skip".into(),
            },
            Op::CloneAddr => match &target {
                Some(a) => {
                    live.addrs.push(a.clone());
                    "ok".into()
                }
                None => "skip".into(),
            },
            Op::DropAddr(i) => {
                // keep at least one handle overall
                if live.addrs.len() + usize::from(live.owning.is_some()) > 1 && !live.addrs.is_empty() {
                    let i = (*i as usize) % live.addrs.len();
                    drop(live.addrs.remove(i));
                    "ok".into()
                } else {
                    "skip".into()
                }
            }
            Op::DropOwning => match live.owning.take() {
                Some(o) => {
                    live.addrs.push(o.to_addr());
                    drop(o);
                    "ok".into()
                }
                None => "skip".into(),
            },
            Op::Detach => match live.owning.take() {
                Some(o) => {
                    live.addrs.push(o.detach());
                    "ok".into()
                }
                None => "skip".into(),
            },
            Op::Stop => match &target {
                Some(a) => {
                    ended = true;
                    let mut b = a.clone();
                    let r = show(b.stop());
                    let e = g!(a.clone());
                    format!("{r}/{e}")
                }
                None => "skip".into(),
            },
            Op::Halt => match &target {
                Some(a) => {
                    ended = true;
                    g!(a.clone().halt())
                }
                None => "skip".into(),
            },
            Op::Join => match live.owning.as_mut() {
                Some(o) => {
                    ended = true;
                    // join only resolves once the actor ends: ask it to stop first
                    let _ = o.to_addr().stop();
                    match guarded(no_panic(o.join())).await {
                        Some(Ok(v)) => format!("{:?}", v.map(|c| c.sum)),
                        Some(Err(())) => "panic".into(),
                        None => {
                            wd = true;
                            "watchdog".into()
                        }
                    }
                }
                None => "skip".into(),
            },
            Op::JoinTwice => match live.owning.as_mut() {
                Some(o) => {
                    ended = true;
                    let _ = o.to_addr().stop();
                    let mut outs = vec![];
                    for _ in 0..2 {
                        let f = o.join();
                        outs.push(match guarded(no_panic(f)).await {
                            Some(Ok(v)) => format!("{:?}", v.map(|c| c.sum)),
                            Some(Err(())) => "panic".to_string(),
                            None => {
                                wd = true;
                                "watchdog".into()
                            }
                        });
                    }
                    outs.join("/")
                }
                None => "skip".into(),
            },
            Op::Consume => match live.owning.take() {
                Some(o) => {
                    ended = true;
                    match guarded(no_panic(o.consume())).await {
                        Some(Ok(r)) => match r {
                            Ok(c) => format!("Ok({})", c.sum),
                            Err(_) => "Err".into(),
                        },
                        Some(Err(())) => "panic".into(),
                        None => {
                            wd = true;
                            "watchdog".into()
                        }
                    }
                }
                None => "skip".into(),
            },
            Op::ConsumeSync => match live.owning.take() {
                Some(o) => {
                    ended = true;
                    match o.consume_sync() {
                        Ok(f) => match guarded(no_panic(f)).await {
                            Some(Ok(v)) => format!("{:?}", v.map(|c| c.sum)),
                            Some(Err(())) => "panic".into(),
                            None => {
                                wd = true;
                                "watchdog".into()
                            }
                        },
                        Err(_) => "Err".into(),
                    }
                }
                None => "skip".into(),
            },
            Op::JoinDiscard => match live.owning.as_mut() {
                Some(o) => {
                    drop(o.join());
                    "ok".into()
                }
                None => "skip".into(),
            },
            Op::JoinWhilePending => match live.owning.as_mut() {
                Some(o) => {
                    ended = true;
                    let mut f1 = o.join();
                    // (a join future that is ready at once - the value is gone already - must not be polled again)
                    let early = match futures::poll!(&mut f1) {
                        std::task::Poll::Ready(v) => Some(format!("{:?}", v.map(|c| c.sum))),
                        std::task::Poll::Pending => None,
                    };
                    let first_ready = early.is_some();
                    let second = match guarded(no_panic(o.join())).await {
                        Some(Ok(v)) => format!("{:?}", v.map(|c| c.sum)),
                        Some(Err(())) => "panic".into(),
                        None => {
                            wd = true;
                            "watchdog".into()
                        }
                    };
                    let _ = o.to_addr().stop();
                    let first = if wd {
                        "-".to_string()
                    } else if let Some(e) = early {
                        e
                    } else {
                        match guarded(no_panic(f1)).await {
                            Some(Ok(v)) => format!("{:?}", v.map(|c| c.sum)),
                            Some(Err(())) => "panic".into(),
                            None => {
                                wd = true;
                                "watchdog".into()
                            }
                        }
                    };
                    format!("{first_ready}/{second}/{first}")
                }
                None => "skip".into(),
            },
            Op::JoinPollDrop => match live.owning.as_mut() {
                Some(o) => {
                    let mut f = o.join();
                    let polled = futures::poll!(&mut f).is_ready();
                    drop(f);
                    let a = o.to_addr();
                    hannibal::runtime::sleep(Duration::from_millis(2)).await;
                    let alive = g!(a.call(Get));
                    format!("{polled}/{alive}")
                }
                None => "skip".into(),
            },
            Op::LazyJoinThenDrop => match live.owning.take() {
                Some(mut o) => {
                    ended = true;
                    let f = o.join();
                    let mut a = o.to_addr();
                    drop(o);
                    hannibal::runtime::sleep(Duration::from_millis(2)).await;
                    let alive = g!(a.call(Get));
                    let _ = a.stop();
                    let j = match guarded(no_panic(f)).await {
                        Some(Ok(v)) => format!("{:?}", v.map(|c| c.sum)),
                        Some(Err(())) => "panic".into(),
                        None => {
                            wd = true;
                            "watchdog".into()
                        }
                    };
                    live.addrs.push(a);
                    format!("{alive}/{j}")
                }
                None => "skip".into(),
            },
            Op::Await => match &target {
                Some(a) => {
                    ended = true;
                    let mut b = a.clone();
                    let _ = b.stop();
                    g!(a.clone())
                }
                None => "skip".into(),
            },
            Op::Restart => match (live.restartable, live.addrs.last_mut()) {
                (true, Some(a)) => {
                    let r = show(a.restart());
                    // make the effect observable in order: a call behind the restart
                    let c = g!(a.call(Get));
                    format!("{r}/{c}")
                }
                _ => "skip".into(),
            },
            Op::TicksThenStop { with, k, period_ms } => match &target {
                Some(a) => {
                    ended = true;
                    let arm = Arm { with: *with, k: (*k).max(1), period: Duration::from_millis((*period_ms).max(1) as u64) };
                    let s = g!(a.send(arm));
                    let e = g!(a.clone());
                    format!("{s}/{e}")
                }
                None => "skip".into(),
            },
            Op::DelayedStop { ms } => match &target {
                Some(a) => {
                    ended = true;
                    let s = g!(a.send(ArmDelayed(Duration::from_millis((*ms).max(1) as u64))));
                    let e = g!(a.clone());
                    format!("{s}/{e}")
                }
                None => "skip".into(),
            },
            Op::LongDelayedStop => match &target {
                Some(a) => {
                    ended = true;
                    let t0 = std::time::Instant::now();
                    let s = g!(a.send(ArmDelayed(Duration::from_millis(1200))));
                    let e = match futures::select! {
                        r = a.clone().fuse() => Some(r),
                        _ = hannibal::runtime::sleep(Duration::from_secs(6)).fuse() => None,
                    } {
                        Some(r) => show(r),
                        None => {
                            wd = true;
                            "watchdog".to_string()
                        }
                    };
                    // only a lower bound is asserted: a delayed timer never fires before its delay
                    let timing = if s == "Ok(())" && e == "Ok(())" && t0.elapsed() < Duration::from_millis(1100) { "early" } else { "in-time" };
                    format!("{s}/{e}/{timing}")
                }
                None => "skip".into(),
            },
            Op::TimedTicks { with, k, period_us } => match &target {
                Some(a) => {
                    ended = true;
                    let t0 = std::time::Instant::now();
                    let period = Duration::from_micros(*period_us as u64);
                    let k = (*k).max(1);
                    let s = g!(a.send(Arm { with: *with, k, period }));
                    let e = match futures::select! {
                        r = a.clone().fuse() => Some(r),
                        _ = hannibal::runtime::sleep(Duration::from_secs(6)).fuse() => None,
                    } {
                        Some(r) => show(r),
                        None => {
                            wd = true;
                            "watchdog".to_string()
                        }
                    };
                    // k ticks need at least k periods (10% slack for timer granularity)
                    let need = period * k as u32 * 9 / 10;
                    let timing = if s == "Ok(())" && e == "Ok(())" && t0.elapsed() < need { "early" } else { "in-time" };
                    format!("{s}/{e}/{timing}")
                }
                None => "skip".into(),
            },
            Op::Feed(n) => match &live.stream {
                Some(tx) => {
                    for i in 0..*n {
                        let _ = tx.unbounded_send(i as i64 + 1);
                    }
                    // make it observable in order: wait until the items are consumed or the actor is gone
                    hannibal::runtime::sleep(Duration::from_millis(3)).await;
                    "ok".into()
                }
                None => "skip".into(),
            },
            Op::EndStream => match live.stream.take() {
                Some(tx) => {
                    ended = true;
                    drop(tx);
                    match &target {
                        Some(a) => g!(a.clone()),
                        None => "ok".into(),
                    }
                }
                None => "skip".into(),
            },
            Op::IdleThenYieldingGet => match &target {
                Some(a) => {
                    hannibal::runtime::sleep(HANDLER_LIMIT + Duration::from_millis(100)).await;
                    g!(a.call(YieldingGet))
                }
                None => "skip".into(),
            },
            Op::Crowd { n } => {
                let mut owners = vec![];
                let mut addrs = vec![];
                for i in 0..*n as usize {
                    match i % 3 {
                        0 => addrs.push(Cell(i).spawn()),
                        1 => {
                            let o = hannibal::spawner::Spawnable::spawn_owning(Cell(i));
                            addrs.push(o.to_addr());
                            owners.push(o);
                        }
                        _ => addrs.push(hannibal::build(Cell(i)).unbounded().spawn()),
                    }
                }
                let mut out = "all-answered".to_string();
                for (i, a) in addrs.iter().enumerate() {
                    let r = g!(a.call(CellGet));
                    if r != format!("Ok({i})") {
                        out = format!("crowd-member-{r}");
                        break;
                    }
                }
                drop(addrs);
                drop(owners);
                out
            }
            Op::Pause => {
                hannibal::runtime::sleep(Duration::from_millis(2)).await;
                "ok".into()
            }
            Op::BlockingProbe => match &target {
                Some(a) => {
                    let before = ADDS.load(std::sync::atomic::Ordering::SeqCst);
                    let s = g!(a.send(Add(0)));
                    let mut seen = false;
                    if s == "Ok(())" {
                        // blocks this thread for up to 1.5 s; returns as soon as the actor got there
                        for _ in 0..300 {
                            if ADDS.load(std::sync::atomic::Ordering::SeqCst) != before {
                                seen = true;
                                break;
                            }
                            std::thread::sleep(Duration::from_millis(5));
                        }
                    }
                    format!("{s}/{}", if seen || s != "Ok(())" { "progress" } else { "stalled" })
                }
                None => "skip".into(),
            },
            Op::ExecBodyAfterHalt => match &target {
                Some(a) => {
                    ended = true;
                    let before = EXEC_RAN.load(std::sync::atomic::Ordering::SeqCst);
                    let s = g!(a.send(ArmExecLong(Duration::from_millis(10), Duration::from_millis(400))));
                    hannibal::runtime::sleep(Duration::from_millis(120)).await;
                    let e = g!(a.clone().halt());
                    hannibal::runtime::sleep(Duration::from_millis(600)).await;
                    let ran = EXEC_RAN.load(std::sync::atomic::Ordering::SeqCst) != before;
                    format!("{s}/{e}/{}", if ran && s == "Ok(())" && e == "Ok(())" { "ran-after-halt" } else { "clean" })
                }
                None => "skip".into(),
            },
            Op::ExecAfterHalt => match &target {
                Some(a) => {
                    ended = true;
                    let before = EXEC_RAN.load(std::sync::atomic::Ordering::SeqCst);
                    let s = g!(a.send(ArmExec(Duration::from_millis(60))));
                    let e = g!(a.clone().halt());
                    hannibal::runtime::sleep(Duration::from_millis(160)).await;
                    let ran = EXEC_RAN.load(std::sync::atomic::Ordering::SeqCst) != before;
                    format!("{s}/{e}/{}", if ran && s == "Ok(())" && e == "Ok(())" { "ran-after-halt" } else { "clean" })
                }
                None => "skip".into(),
            },
        };
        rec.watchdog |= wd;
        rec.ops.push(out);
        if wd {
            // the program is stuck on this runtime: do not pile further watchdog waits on top
            ended = true;
        }
    }
    // tear down: stop, drop everything, let the runtime finish
    if let Some(a) = any_addr(&live) {
        let mut a = a;
        let _ = a.stop();
        let _ = guarded(a).await;
    }
    drop(live);
    drop(Addr::<Counter>::unregister().await);
    hannibal::runtime::sleep(Duration::from_millis(3)).await;
    let s = st.lock().unwrap();
    rec.started = s.started;
    rec.stopped = s.stopped;
    rec.finished = s.finished;
    rec.ticks = s.ticks;
    rec.values_created = s.created;
    rec.values_dropped = s.dropped;
    rec
}

// ---------------------------------------------------------------------------------------------
// generation (proptest)

mod generate {
    use super::*;
    use proptest::{collection::vec, prelude::*, strategy::Strategy, test_runner::{Config, RngAlgorithm, TestRng, TestRunner}};

    fn entry() -> BoxedStrategy<Entry> {
        let bounded = proptest::option::of(0u8..4);
        let strat = prop_oneof![Just(Strat::Default), Just(Strat::Recreate), Just(Strat::NonRestartable)];
        prop_oneof![
            1 => Just(Entry::Spawn),
            1 => Just(Entry::SpawnOwning),
            1 => Just(Entry::SpawnDefault),
            1 => Just(Entry::SpawnDefaultOwning),
            1 => Just(Entry::SpawnOnStream),
            1 => Just(Entry::SpawnOwningOnStream),
            3 => (bounded.clone(), strat, any::<bool>()).prop_map(|(bounded, strat, owning)| Entry::Build { bounded, strat, owning }),
            3 => (bounded.clone(), any::<bool>()).prop_map(|(bounded, owning)| Entry::BuildOnStream { bounded, owning }),
            1 => bounded.prop_map(|bounded| Entry::BuildRegister { bounded }),
            1 => Just(Entry::FromRegistry),
            1 => Just(Entry::SetupThenFromRegistry),
            1 => Just(Entry::SpawnThenRegister),
        ]
        .boxed()
    }

    fn op() -> BoxedStrategy<Op> {
        prop_oneof![
            6 => Just(Op::Get),
            6 => (-5i8..20).prop_map(Op::Add),
            2 => Just(Op::Ping),
            3 => Just(Op::CloneAddr),
            3 => any::<u8>().prop_map(Op::DropAddr),
            3 => Just(Op::DropOwning),
            2 => Just(Op::Detach),
            1 => Just(Op::Stop),
            1 => Just(Op::Halt),
            2 => Just(Op::Join),
            2 => Just(Op::JoinTwice),
            1 => Just(Op::Consume),
            2 => Just(Op::ConsumeSync),
            2 => Just(Op::LazyJoinThenDrop),
            2 => Just(Op::JoinPollDrop),
            2 => Just(Op::JoinDiscard),
            1 => Just(Op::JoinWhilePending),
            1 => Just(Op::Await),
            2 => Just(Op::Restart),
            2 => (any::<bool>(), 1u8..4, 1u8..4).prop_map(|(with, k, period_ms)| Op::TicksThenStop { with, k, period_ms }),
            1 => (1u8..5).prop_map(|ms| Op::DelayedStop { ms }),
            1 => Just(Op::LongDelayedStop),
            3 => (0u8..4).prop_map(Op::Feed),
            1 => Just(Op::EndStream),
            2 => Just(Op::Pause),
        ]
        .boxed()
    }

    pub fn programs(seed: u64, n: u32, big: bool) -> Vec<Program> {
        let mut bytes = [0u8; 32];
        for (i, b) in bytes.iter_mut().enumerate() {
            *b = (seed.wrapping_mul(0x9E37_79B9_7F4A_7C15).rotate_left(i as u32 * 7) >> (i % 8)) as u8 ^ i as u8;
        }
        let mut runner = TestRunner::new_with_rng(Config { failure_persistence: None, ..Config::default() }, TestRng::from_seed(RngAlgorithm::ChaCha, &bytes));
        let strat = (entry(), vec(op(), 3..=(if big { 14 } else { 10 })));
        let mut out = vec![];
        for id in 0..n {
            let t = strat.new_tree(&mut runner).expect("generate");
            use proptest::strategy::ValueTree;
            let (entry, mut ops) = t.current();
            // the long timer costs more than a second of real time: at most one program in 40 keeps it
            for o in ops.iter_mut() {
                if *o == Op::LongDelayedStop {
                    *o = Op::DelayedStop { ms: 3 };
                }
            }
            if id % 40 == 7 {
                let at = (id as usize / 40) % 3;
                ops.insert(at.min(ops.len()), Op::LongDelayedStop);
            }
            // timers never fire early: two ticks of 300 ms, and 20 ticks of a sub-millisecond period
            if id % 40 == 17 {
                let at = (id as usize / 40) % 3;
                ops.insert(at.min(ops.len()), Op::TimedTicks { with: (id / 40) % 2 == 1, k: 2, period_us: 300_000 });
            }
            if id % 40 == 37 {
                let at = (id as usize / 40) % 3;
                ops.insert(at.min(ops.len()), Op::BlockingProbe);
            }
            if id % 40 == 33 {
                ops.push(Op::ExecAfterHalt);
            }
            if id % 40 == 13 {
                ops.push(Op::ExecBodyAfterHalt);
            }
            // a handler limit and an actor that has idled for longer than that: one program in 80
            let entry = if id % 80 == 23 {
                let at = (id as usize / 80) % 3;
                ops.insert(at.min(ops.len()), Op::IdleThenYieldingGet);
                Entry::BuildTimeout { fail: (id / 80) % 2 == 0, owning: (id / 160) % 2 == 0, late: (id / 320) % 2 == 0 }
            } else {
                entry
            };
            // many live actors at once: one program in 80
            if id % 80 == 63 {
                let at = (id as usize / 80) % 3;
                ops.insert(at.min(ops.len()), Op::Crowd { n: 520 + ((id / 80) % 4) as u16 * 40 });
            }
            if id % 40 == 27 {
                let at = (id as usize / 40) % 3;
                ops.insert(at.min(ops.len()), Op::TimedTicks { with: (id / 40) % 2 == 1, k: 20, period_us: 900 });
            }
            out.push(Program { id, entry, ops });
        }
        out
    }
}

// ---------------------------------------------------------------------------------------------
// check driver (parent): generate, run on the three builds, compare, minimise, report

mod check {
    use super::*;
    use std::{collections::BTreeSet, path::{Path, PathBuf}, process::Command, time::Instant};

    const RTS: [&str; 3] = ["rt_tokio", "rt_async", "rt_smol"];

    fn root() -> PathBuf {
        std::env::var_os("HV_ROOT").map(PathBuf::from).unwrap_or_else(|| PathBuf::from("/verif"))
    }
    fn bin(rt: &str) -> PathBuf {
        root().join("engine-rt/target").join(rt).join("release/hv-rt")
    }

    fn run_on(rt: &str, progs: &[Program], dir: &Path, tag: &str) -> Result<Vec<Record>, String> {
        let pf = dir.join(format!("{tag}-{rt}-p.json"));
        let of = dir.join(format!("{tag}-{rt}-o.json"));
        std::fs::write(&pf, serde_json::to_string(progs).unwrap()).map_err(|e| e.to_string())?;
        let st = Command::new(bin(rt)).arg("run").arg(&pf).arg(&of).stderr(std::process::Stdio::null()).status().map_err(|e| format!("{rt}: {e}"))?;
        if !st.success() {
            return Err(format!("runner {rt} exited with {st}"));
        }
        let s = std::fs::read_to_string(&of).map_err(|e| e.to_string())?;
        serde_json::from_str(&s).map_err(|e| e.to_string())
    }

    /// None = the three runtimes agree and the actor was alive after the entry point
    fn verdict(recs: &[Record; 3]) -> Option<String> {
        for (i, r) in recs.iter().enumerate() {
            if r.watchdog {
                return Some(format!("C18/watchdog/{}", RTS[i]));
            }
        }
        for (i, r) in recs.iter().enumerate() {
            if r.ops.iter().any(|o| o.contains("early")) {
                return Some(format!("C18/timer_early/{}", RTS[i]));
            }
            if r.ops.iter().any(|o| o.contains("stalled")) {
                return Some(format!("C18/no_progress_while_spawner_blocks/{}", RTS[i]));
            }
            if r.ops.iter().any(|o| o.contains("ran-after-halt")) {
                return Some(format!("C18/timer_after_end/{}", RTS[i]));
            }
            if r.ops.iter().any(|o| o.contains("panic")) {
                return Some(format!("C18/panic/{}", RTS[i]));
            }
        }
        for (i, r) in recs.iter().enumerate() {
            if r.alive_after_entry != "Ok(0)" {
                return Some(format!("C18/not_running_after_entry/{}", RTS[i]));
            }
        }
        if recs[0] == recs[1] && recs[1] == recs[2] {
            return None;
        }
        let odd = if recs[0] == recs[1] { RTS[2] } else if recs[0] == recs[2] { RTS[1] } else if recs[1] == recs[2] { RTS[0] } else { "all" };
        let field = if recs.iter().any(|r| r.ops != recs[0].ops) { "results" } else { "callbacks" };
        Some(format!("C18/differs/{odd}/{field}"))
    }

    fn run_all(progs: &[Program], dir: &Path, tag: &str) -> Result<Vec<[Record; 3]>, String> {
        let mut per: Vec<Vec<Record>> = vec![];
        let handles: Vec<_> = RTS
            .iter()
            .map(|rt| {
                let (progs, dir, tag) = (progs.to_vec(), dir.to_path_buf(), tag.to_string());
                std::thread::spawn(move || run_on(rt, &progs, &dir, &tag))
            })
            .collect();
        for h in handles {
            per.push(h.join().map_err(|_| "thread".to_string())??);
        }
        if per.iter().any(|p| p.len() != progs.len()) {
            return Err("runner returned a wrong number of records".into());
        }
        Ok((0..progs.len()).map(|i| [per[0][i].clone(), per[1][i].clone(), per[2][i].clone()]).collect())
    }

    /// reproducible = same signature in 3 of 3 re-executions
    fn reproducible(p: &Program, sig: &str, dir: &Path) -> Result<bool, String> {
        for k in 0..3 {
            let r = run_all(std::slice::from_ref(p), dir, &format!("re{k}"))?;
            if verdict(&r[0]).as_deref() != Some(sig) {
                return Ok(false);
            }
        }
        Ok(true)
    }

    fn minimise(p: &Program, sig: &str, dir: &Path) -> Program {
        let mut cur = p.clone();
        let mut i = 0;
        while i < cur.ops.len() {
            let mut cand = cur.clone();
            cand.ops.remove(i);
            match run_all(std::slice::from_ref(&cand), dir, "min") {
                Ok(r) if verdict(&r[0]).as_deref() == Some(sig) => cur = cand,
                _ => i += 1,
            }
        }
        cur
    }

    fn nontrivial(p: &Program) -> bool {
        !matches!(p.entry, Entry::Spawn) && p.ops.iter().any(|o| matches!(o, Op::Get | Op::Add(_) | Op::Ping | Op::Restart))
    }

    pub fn main(tier: &str) -> i32 {
        let t0 = Instant::now();
        let seed: u64 = std::env::var("VERIF_SEED").ok().and_then(|s| s.parse::<i64>().ok()).map(|x| x as u64).unwrap_or(1);
        let thorough = tier == "thorough";
        let (batches, per_batch) = if thorough { (60u32, 500u32) } else { (8, 150) };
        let dir = root().join("out/work").join(format!("C18-{}", std::process::id()));
        std::fs::create_dir_all(&dir).ok();
        for rt in RTS {
            if !bin(rt).exists() {
                eprintln!("BUILD-ERROR: {} missing", bin(rt).display());
                return 2;
            }
        }
        let mut programs = 0u64;
        let mut distinct: BTreeSet<String> = BTreeSet::new();
        let mut samples: Vec<serde_json::Value> = vec![];
        let mut violations: Vec<(String, PathBuf)> = vec![];
        let mut inconclusive = 0u64;
        let mut seen: BTreeSet<String> = BTreeSet::new();
        // replay tier
        let reg = root().join("replays/C18");
        let mut regression: Vec<Program> = vec![];
        if let Ok(rd) = std::fs::read_dir(&reg) {
            for e in rd.flatten() {
                if let Ok(s) = std::fs::read_to_string(e.path()) {
                    if let Ok(v) = serde_json::from_str::<serde_json::Value>(&s) {
                        if let Ok(p) = serde_json::from_value::<Program>(v["program"].clone()) {
                            regression.push(p);
                        }
                    }
                }
            }
        }
        let mut all_batches: Vec<Vec<Program>> = vec![];
        if !regression.is_empty() {
            all_batches.push(regression);
        }
        for b in 0..batches {
            all_batches.push(generate::programs(seed.wrapping_mul(1000).wrapping_add(b as u64), per_batch, thorough));
        }
        // batches run concurrently, five at a time (each uses three runner processes)
        let mut results: Vec<Result<(Vec<Program>, Vec<[Record; 3]>), String>> = vec![];
        let mut queue: Vec<(usize, Vec<Program>)> = all_batches.into_iter().enumerate().collect();
        while !queue.is_empty() {
            let chunk: Vec<(usize, Vec<Program>)> = queue.drain(..queue.len().min(5)).collect();
            let hs: Vec<_> = chunk
                .into_iter()
                .map(|(i, progs)| {
                    let dir = dir.clone();
                    std::thread::spawn(move || run_all(&progs, &dir, &format!("b{i}")).map(|r| (progs, r)))
                })
                .collect();
            results.extend(hs.into_iter().map(|h| h.join().unwrap_or_else(|_| Err("thread panicked".into()))));
        }
        for res in results {
            let (progs, recs) = match res {
                Ok(x) => x,
                Err(e) => {
                    eprintln!("HARNESS-ERROR: {e}");
                    return 2;
                }
            };
            for (p, r) in progs.iter().zip(recs.iter()) {
                programs += 1;
                if nontrivial(p) {
                    distinct.insert(serde_json::to_string(&(&p.entry, &p.ops)).unwrap());
                    if samples.len() < 4 {
                        samples.push(serde_json::json!({"program": p, "record_tokio": r[0], "all_three_equal": r[0] == r[1] && r[1] == r[2]}));
                    }
                }
                let Some(sig) = verdict(r) else { continue };
                if seen.contains(&sig) {
                    continue;
                }
                match reproducible(p, &sig, &dir) {
                    Ok(true) => {}
                    Ok(false) => {
                        inconclusive += 1;
                        continue;
                    }
                    Err(e) => {
                        eprintln!("HARNESS-ERROR: {e}");
                        return 2;
                    }
                }
                if sig.starts_with("C18/watchdog") {
                    // a reproducible hang on one runtime only is a difference; report it as such
                }
                seen.insert(sig.clone());
                let min = minimise(p, &sig, &dir);
                let recs = run_all(std::slice::from_ref(&min), &dir, "final").ok();
                let rep_dir = root().join("out/replays/C18");
                std::fs::create_dir_all(&rep_dir).ok();
                let path = rep_dir.join(format!("{}-{}.json", sig.replace('/', "_"), min.id));
                let body = serde_json::json!({"property": "C18", "signature": sig, "program": min, "original": p, "records": recs.map(|r| r[0].clone().to_vec())});
                std::fs::write(&path, serde_json::to_string_pretty(&body).unwrap()).ok();
                violations.push((sig, path));
            }
        }
        std::fs::remove_dir_all(&dir).ok();
        for (sig, path) in &violations {
            println!("VIOLATION property=C18 replay={} signature={sig}", path.display());
        }
        let wall = t0.elapsed().as_secs_f64();
        let evidence = serde_json::json!({
            "property_id": "C18",
            "tier": if thorough { "thorough" } else { "quick" },
            "seed": seed as i64,
            "level": "exploration",
            "coverage": {
                "evaluations": programs * 3,
                "programs": programs,
                "distinct_nontrivial": distinct.len(),
                "rule": "proptest-generated timing-independent client programs (one task, every op awaited in sequence; every spawn entry point: spawn, spawn_owning, spawn_default, DefaultSpawnable::spawn_owning, spawn_on_stream, spawn_owning_on_stream, every builder terminal incl. on_stream / bounded_on_stream / register, from_registry, setup, Addr::register; ops: call, send, ping, clone, drop a handle, drop the OwningAddr while a clone lives, detach, stop, halt, join, await, restart, self-stopping interval / interval_with / delayed_send, stream feed / end) executed by three builds of one runner (tokio, async-std, smol; real runtimes) and compared record by record, plus the absolute check that a call issued after yielding to the runtime is answered; everything after the actor's end is not compared (races with task teardown); non-trivial = non-default entry point and at least one op whose result depends on the actor being alive; distinct = (entry, ops)",
                "samples": samples,
                "inconclusive_not_reproducible": inconclusive,
                "runtimes": RTS,
                "exhaustive": false,
            },
            "assumptions": ["real runtimes and threads: schedules are not controlled; only programs whose outcome does not depend on timing are generated; a mismatch counts only if it reproduces in 3 of 3 re-executions", "panicking programs are excluded (runtimes legitimately differ)"],
            "wall_s": wall,
            "violations": violations.len(),
        });
        let ev = root().join("evidence");
        std::fs::create_dir_all(&ev).ok();
        if std::fs::write(ev.join("C18.json"), serde_json::to_string_pretty(&evidence).unwrap()).is_err() {
            return 2;
        }
        println!("C18 {tier}: {programs} programs x 3 runtimes, {} distinct non-trivial, {inconclusive} not reproducible, {} violations, {wall:.1}s", distinct.len(), violations.len());
        if violations.is_empty() { 0 } else { 1 }
    }

    pub fn replay(file: &str) -> i32 {
        let Ok(s) = std::fs::read_to_string(file) else { return 2 };
        let Ok(v) = serde_json::from_str::<serde_json::Value>(&s) else { return 2 };
        let Ok(p) = serde_json::from_value::<Program>(v["program"].clone()) else { return 2 };
        let dir = root().join("out/work").join(format!("C18r-{}", std::process::id()));
        std::fs::create_dir_all(&dir).ok();
        let r = run_all(std::slice::from_ref(&p), &dir, "replay");
        std::fs::remove_dir_all(&dir).ok();
        match r {
            Ok(r) => match verdict(&r[0]) {
                Some(sig) => {
                    println!("VIOLATION property=C18 replay={file} signature={sig}");
                    for (rt, rec) in RTS.iter().zip(r[0].iter()) {
                        println!("  {rt}: {rec:?}");
                    }
                    1
                }
                None => {
                    println!("not reproduced: the three runtimes agree");
                    0
                }
            },
            Err(e) => {
                eprintln!("HARNESS-ERROR: {e}");
                2
            }
        }
    }
}

fn main() {
    let args: Vec<String> = std::env::args().collect();
    match args.get(1).map(String::as_str) {
        Some("name") => println!("{RUNTIME}"),
        Some("check") => std::process::exit(check::main(args.get(2).map(String::as_str).unwrap_or("quick"))),
        Some("replay") => std::process::exit(check::replay(&args[2])),
        Some("gen") => {
            let seed: u64 = args[2].parse().unwrap();
            let n: u32 = args[3].parse().unwrap();
            let big = args[4] == "1";
            let ps = generate::programs(seed, n, big);
            std::fs::write(&args[5], serde_json::to_string(&ps).unwrap()).unwrap();
        }
        Some("run") => {
            let ps: Vec<Program> = serde_json::from_str(&std::fs::read_to_string(&args[2]).unwrap()).unwrap();
            let recs: Vec<Record> = hannibal::runtime::block_on(async {
                let mut out = vec![];
                for p in &ps {
                    match no_panic(run_program(p)).await {
                        Ok(r) => out.push(r),
                        // e.g. the debug assertion in from_registry when the fresh service is already gone
                        Err(()) => out.push(Record { id: p.id, alive_after_entry: "panic".into(), ops: vec!["panic".into()], ..Default::default() }),
                    }
                }
                out
            });
            std::fs::write(&args[3], serde_json::to_string(&recs).unwrap()).unwrap();
        }
        _ => {
            eprintln!("usage: hv-rt gen <seed> <n> <big> <out> | run <programs> <out> | name");
            std::process::exit(2);
        }
    }
}
